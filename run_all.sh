#!/bin/bash
# run every registered check (default tier quick) and summarise; usage: ./run_all.sh [tier] [seed]
tier=${1:-quick}; seed=${2:-0}; rc=0
for p in $(/venv/bin/python -c "import json;print(' '.join(c['property_id'] for c in json.load(open('/verif/MANIFEST.json'))['checks']))"); do
  out=$(VERIF_SEED=$seed ./check $p --tier $tier); e=$?
  echo "$out" | head -1
  echo "$out" | grep -E "^(VIOLATION|INCONCLUSIVE|KNOWN-FINDING)" | cut -c1-220
  [ $e -ne 0 ] && rc=1
done
exit $rc
