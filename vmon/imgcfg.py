"""Shared generator of PersistenceImager configurations (geometry, kernel, weight) with the matching oracle-side
descriptions.  Module-level callables so that joblib can pickle them by reference."""
import math

import numpy as np

R_LIST = [0.2, -0.2, 0.5, -0.5, 0.74, -0.74, 0.76, -0.76, 0.9, -0.9, 0.93, -0.93, 0.99, -0.99, 0.3, 0.925]


def logistic_kernel(x, y, mu=None, s=1.0):
    """user-supplied kernel: product of two logistic CDFs with scale s centred at mu"""
    return 0.25 * (1 + np.tanh(0.5 * (x - mu[0]) / s)) * (1 + np.tanh(0.5 * (y - mu[1]) / s))


def custom_weight(birth, pers, a=1.0, c=0.5):
    """user-supplied non-negative weight"""
    return a * (1.0 + np.cos(birth)) + c * pers


def signed_weight(birth, pers, a=1.0):
    """user-supplied weight that takes both signs"""
    return a * np.sin(3 * birth) * pers


def gen_geometry(rng, max_res=(12, 9)):
    ps = float(rng.choice([0.1, 0.2, 0.25, 0.3, 0.5, 0.7, 1 / 3, 1.0]))
    nb, npx = int(rng.integers(1, max_res[0] + 1)), int(rng.integers(1, max_res[1] + 1))
    b0 = float(rng.choice([0.0, 0.0, -1.0, 0.5, 2.0])) if rng.random() < 0.7 else float(rng.normal(0, 2))
    p0 = float(rng.choice([0.0, 0.0, 0.0, 0.1, 0.5]))
    if rng.random() < 0.6:       # whole number of pixels
        be, pe = nb * ps, npx * ps
    else:                        # the range does not divide: the imager pads it
        be, pe = (nb - float(rng.uniform(0.05, 0.95))) * ps, (npx - float(rng.uniform(0.05, 0.95))) * ps
    return {"birth_range": (b0, b0 + be), "pers_range": (p0, p0 + pe), "pixel_size": ps}


def gen_kernel(rng, ps, high_corr=True):
    """returns (ctor kwargs, oracle description)"""
    kind = str(rng.choice(["scalar", "iso", "diag", "corr", "corr", "uniform", "logistic", "default"]))
    v = float(rng.choice([1e-4, 1e-2, 0.05, 0.25, 1.0, 1.0, 4.0, 100.0])) * (ps ** 2 if rng.random() < 0.5 else 1.0)
    if kind == "default":
        return {}, {"kind": "gaussian", "cov": [[1.0, 0.0], [0.0, 1.0]]}
    if kind == "scalar":
        s = v if rng.random() < 0.7 else int(rng.integers(1, 4))
        return {"kernel": "gaussian", "kernel_params": {"sigma": s}}, {"kind": "gaussian", "cov": [[float(s), 0.0], [0.0, float(s)]]}
    if kind == "iso":
        sig = [[v, 0.0], [0.0, v]]
        if rng.random() < 0.5:
            sig = np.array(sig)
        return {"kernel": "gaussian", "kernel_params": {"sigma": sig}}, {"kind": "gaussian", "cov": [[v, 0.0], [0.0, v]]}
    if kind == "diag":
        v2 = v * float(rng.choice([0.1, 0.5, 2.0, 10.0]))
        sig = [[v, 0.0], [0.0, v2]]
        return {"kernel": "gaussian", "kernel_params": {"sigma": np.array(sig) if rng.random() < 0.5 else sig}}, {"kind": "gaussian", "cov": sig}
    if kind == "corr":
        rl = R_LIST if high_corr else [r for r in R_LIST if abs(r) < 0.925]
        r = float(rng.choice(rl))
        v2 = v * float(rng.choice([0.25, 1.0, 1.0, 4.0]))
        c = r * math.sqrt(v * v2)
        sig = [[v, c], [c, v2]]
        return {"kernel": "gaussian", "kernel_params": {"sigma": np.array(sig)}}, {"kind": "gaussian", "cov": sig, "r": r}
    if kind == "uniform":
        w = float(rng.choice([1, 3, 0.5, 0.2, 2.5])) * (ps if rng.random() < 0.6 else 1.0)
        h = float(rng.choice([1, 3, 0.5, 0.2, 1.5])) * (ps if rng.random() < 0.6 else 1.0)
        r = rng.random()
        if r < 0.15:      # only one of the box dimensions given: the other one is the kernel function's own default (1)
            return {"kernel": "uniform", "kernel_params": {"width": w}}, {"kind": "uniform", "width": w, "height": 1.0}
        if r < 0.3:
            return {"kernel": "uniform", "kernel_params": {"height": h}}, {"kind": "uniform", "width": 1.0, "height": h}
        if r < 0.35:
            return {"kernel": "uniform", "kernel_params": {}}, {"kind": "uniform", "width": 1.0, "height": 1.0}
        return {"kernel": "uniform", "kernel_params": {"width": w, "height": h}}, {"kind": "uniform", "width": w, "height": h}
    s = float(rng.choice([0.05, 0.2, 1.0])) * (ps if rng.random() < 0.5 else 1.0)
    return {"kernel": logistic_kernel, "kernel_params": {"s": s}}, {"kind": "logistic", "s": s}


def gen_weight(rng, nonneg_only=False):
    """returns (ctor kwargs, python function (b,p)->weights, nonnegative?)"""
    kind = str(rng.choice(["default", "pers", "pers", "ramp", "ramp", "custom", "signed"]))
    if kind == "signed" and nonneg_only:
        kind = "custom"
    if kind == "default":
        return {}, (lambda b, p: np.asarray(p, float) ** 1.0), True
    if kind == "pers":
        n = float(rng.choice([0.5, 1.0, 2.0, 3.0]))
        return {"weight": "persistence", "weight_params": {"n": n}}, (lambda b, p, n=n: np.asarray(p, float) ** n), True
    if kind == "ramp":
        low = float(rng.choice([0.0, 0.0, 0.2])); high = low + float(rng.choice([1.0, 0.5, 3.0]))
        if rng.random() < 0.25:
            low, high = high, low          # a decreasing ramp is a legitimate configuration too
        start = float(rng.choice([0.0, 0.3, 1.0])); end = start + float(rng.choice([0.5, 1.0, 2.0]))

        def ramp(b, p, low=low, high=high, start=start, end=end):
            p = np.asarray(p, float)
            return np.where(p < start, low, np.where(p > end, high, (p - start) * (high - low) / (end - start) + low))
        return {"weight": "linear_ramp", "weight_params": {"low": low, "high": high, "start": start, "end": end}}, ramp, True
    if kind == "custom":
        a, c = float(rng.choice([0.5, 1.0, 2.0])), float(rng.choice([0.0, 0.5, 1.0]))
        return {"weight": custom_weight, "weight_params": {"a": a, "c": c}}, (lambda b, p, a=a, c=c: a * (1 + np.cos(np.asarray(b, float))) + c * np.asarray(p, float)), True
    a = float(rng.choice([1.0, 2.0]))
    return {"weight": signed_weight, "weight_params": {"a": a}}, (lambda b, p, a=a: a * np.sin(3 * np.asarray(b, float)) * np.asarray(p, float)), False


def gen_points(rng, n, geom_public, integer=False):
    """birth-persistence points inside / on pixel borders / on the region border / outside the imaged region"""
    b0, b1 = geom_public["birth_range"]; p0, p1 = geom_public["pers_range"]; ps = geom_public["pixel_size"]
    pts = []
    for _ in range(n):
        where = int(rng.integers(0, 6))
        if where <= 1:
            b, p = rng.uniform(b0, b1), rng.uniform(max(p0, 0), max(p1, p0 + ps))
        elif where == 2:     # on a pixel border
            b = b0 + int(rng.integers(0, max(1, round((b1 - b0) / ps)) + 1)) * ps
            p = max(p0, 0) + int(rng.integers(0, max(1, round((p1 - p0) / ps)) + 1)) * ps
        elif where == 3:     # on the region border
            b, p = (b0 if rng.random() < 0.5 else b1), rng.uniform(max(p0, 0), p1)
        elif where == 4:     # outside the region
            b, p = b1 + rng.uniform(0.1, 2) * ps * 3, p1 + rng.uniform(0, 2) * ps
        else:
            b, p = b0 - rng.uniform(0.1, 3) * ps, rng.uniform(0, max(p1, ps))
        pts.append((float(b), max(float(p), 0.0)))
    arr = np.array(pts, float).reshape(-1, 2)
    if integer:
        arr = np.round(arr)
        arr[:, 1] = np.maximum(arr[:, 1], 0)
    return arr


def delaying_weight(birth, pers, log=None, n=1.0):
    """persistence weight that sleeps a data-dependent time and logs (pid, thread, start, end, tag) - used to make
    parallel workers finish out of submission order and to observe which worker processed what"""
    import os
    import threading
    import time
    t0 = time.monotonic()
    tag = float(birth[0]) if len(birth) else -1.0
    ms = int(abs(tag) * 1000) % 7
    time.sleep(0.004 * ms)
    t1 = time.monotonic()
    if log:
        with open(log, "a") as f:
            f.write("%d %d %.6f %.6f %r\n" % (os.getpid(), threading.get_ident(), t0, t1, tag))
    return np.asarray(pers, float) ** n


def gen_large(rng):
    """a configuration of realistic size: thousands of pairs (cubical persistence, big point clouds) on a grid of up to
    160x160 pixels, with a kernel that factors over the axes (so that the oracle is affordable).  returns
    (geometry kwargs, kernel kwargs, kernel description, weight kwargs, weight function, (n,2) birth-persistence points)"""
    nb, npx = int(rng.integers(30, 161)), int(rng.integers(30, 161))
    ps = float(rng.choice([0.01, 0.02, 0.05, 0.1]))
    b0 = float(rng.choice([0.0, 0.0, -1.0, 0.5])); p0 = float(rng.choice([0.0, 0.0, 0.1]))
    geom = {"birth_range": (b0, b0 + nb * ps), "pers_range": (p0, p0 + npx * ps), "pixel_size": ps}
    while True:
        kkw, kd = gen_kernel(rng, ps)
        if kd["kind"] != "gaussian" or kd["cov"][0][1] == 0.0:
            break
    while True:
        wkw, wfun, nonneg = gen_weight(rng)
        if nonneg:
            break
    n = int(rng.integers(2000, 9001))
    b = rng.uniform(b0 - 2 * ps, b0 + (nb + 2) * ps, n)
    p = np.abs(rng.normal(0, 0.4 * npx * ps, n)) + (p0 if rng.random() < 0.5 else 0.0)
    if rng.random() < 0.3:          # integer-like data: many coincident pairs
        q = ps * float(rng.choice([0.5, 1.0, 2.5]))
        b, p = np.round(b / q) * q, np.round(p / q) * q
    return geom, kkw, kd, wkw, wfun, np.column_stack([b, p])


def rescale(geom, kkw, kdesc, u):
    """the configuration (geometry kwargs, kernel kwargs, kernel description) expressed in a unit u times smaller / larger"""
    import copy
    g = {"birth_range": (geom["birth_range"][0] * u, geom["birth_range"][1] * u),
         "pers_range": (geom["pers_range"][0] * u, geom["pers_range"][1] * u), "pixel_size": geom["pixel_size"] * u}
    kk, kd = copy.deepcopy(kkw), copy.deepcopy(kdesc)
    if kd["kind"] == "gaussian":
        kd["cov"] = (np.asarray(kd["cov"], float) * u * u).tolist()
        if "kernel_params" in kk:
            sg = kk["kernel_params"]["sigma"]
            kk["kernel_params"]["sigma"] = (sg * u * u) if isinstance(sg, (int, float)) else (np.asarray(sg, float) * u * u if isinstance(sg, np.ndarray) else (np.asarray(sg, float) * u * u).tolist())
        else:
            kk = {"kernel": "gaussian", "kernel_params": {"sigma": kd["cov"]}}
    elif kd["kind"] == "uniform":
        kd["width"] *= u; kd["height"] *= u
        kk["kernel_params"] = {"width": kd["width"], "height": kd["height"]}
    else:
        raise ValueError(kd["kind"])
    return g, kk, kd
