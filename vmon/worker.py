"""Worker process: runs one slice of a property's workload against the real persim tree and dumps what its
monitors observed as JSON.  Started by vmon.core (never via multiprocessing)."""
import argparse
import signal
import faulthandler
import importlib
import json
import os
import sys
import time
import traceback


class CaseTimeout(BaseException):
    """raised by the per-case alarm; BaseException so that monitors' `except Exception` cannot swallow it"""


def _alarm(signum, frame):
    raise CaseTimeout()


def main():
    ap = argparse.ArgumentParser()
    ap.add_argument("--prop", required=True)
    ap.add_argument("--tier", required=True)
    ap.add_argument("--seed", type=int, required=True)
    ap.add_argument("--wid", type=int, required=True)
    ap.add_argument("--cases", required=True, help="start:stop:step  or  comma list")
    ap.add_argument("--out", required=True)
    ap.add_argument("--soft-deadline", type=float, default=1e9)
    ap.add_argument("--watchdog", type=float, default=0)
    ap.add_argument("--case-timeout", type=float, default=120.0)
    a = ap.parse_args()

    here = os.path.dirname(os.path.dirname(os.path.abspath(__file__)))
    repo = os.path.realpath(os.environ.get("VERIF_REPO", "/repo"))
    deps = os.path.join(here, ".deps")
    for p in (deps, here, repo):
        if p in sys.path:
            sys.path.remove(p)
        sys.path.insert(0, p)
    if a.watchdog:
        faulthandler.dump_traceback_later(a.watchdog, exit=True)
    import numpy as np
    import matplotlib
    matplotlib.use("Agg")
    import persim
    assert os.path.realpath(persim.__file__).startswith(repo + os.sep), (persim.__file__, repo)

    from vmon.ctx import Ctx
    mod = importlib.import_module("vmon.props." + a.prop)
    hs = os.environ.get("PYTHONHASHSEED", "random")
    ctx = Ctx(a.prop, a.tier, a.seed, a.wid, hs)
    if ":" in a.cases:
        s, e, st = (int(x) for x in a.cases.split(":"))
        ks = range(s, e, st)
    else:
        ks = [int(x) for x in a.cases.split(",") if x != ""]
    t0 = time.time()
    # reach sensor: worker 0 records which lines of persim it executed (coverage.py on sys.monitoring); evidence only
    cov = None
    if a.wid == 0 and os.environ.get("VERIF_NO_COVER") != "1":
        try:
            os.environ.setdefault("COVERAGE_CORE", "sysmon")
            import coverage
            cov = coverage.Coverage(data_file=None, include=[os.path.join(repo, "persim", "*")], branch=False)
            cov.start()
        except Exception:
            cov = None
    harness_errors = []
    n_hangs = 0
    hangs = []
    signal.signal(signal.SIGALRM, _alarm)
    try:
        if hasattr(mod, "setup"):
            mod.setup(ctx)
        n_done = 0
        cov_on = True
        cov_budget = max(10, len(ks) // 40)     # coverage only on a small leading slice of worker 0 (it slows python loops several-fold)
        for k in ks:
            n_done += 1
            if cov is not None and cov_on and (n_done == cov_budget + 1 or time.time() - t0 > 2.0):
                cov.stop()      # case count or 2 s, whichever comes first: reach evidence must not dominate the run time
                cov_on = False
            if time.time() - t0 > a.soft_deadline:
                ctx.note("soft_deadline_hit")
                break
            # per-case alarm: budget is ~1000x a normal case. A case that exceeds it is re-run once with twice the
            # budget; only a repeat is reported (clause "call terminates"), and after two such reports the worker stops.
            hung = False
            for attempt, budget in enumerate((a.case_timeout, 2 * a.case_timeout)):
                rng = np.random.default_rng([a.seed, int(a.prop[1:]), k])
                try:
                    signal.setitimer(signal.ITIMER_REAL, budget)
                    try:
                        mod.run_case(ctx, k, rng)
                    finally:
                        signal.setitimer(signal.ITIMER_REAL, 0)
                    hung = False
                    break
                except CaseTimeout:
                    hung = True
                    ctx.note("case_timeout_attempts")
                except Exception as e:  # harness bug, never a verdict about persim
                    harness_errors.append({"case": k, "error": repr(e), "tb": traceback.format_exc()[-3000:]})
                    hung = False
                    break
            if hung:
                # a wall-clock budget is never a verdict about persim: the run becomes INCONCLUSIVE (with the witness)
                ctx.note("case_hang")
                hangs.append({"case": k, "budget_s": 2 * a.case_timeout, "class": ctx.cls, "input": ctx.payload})
                n_hangs += 1
                if n_hangs >= 2:
                    ctx.note("aborted_after_hangs")
                    break
            if len(harness_errors) > 20:
                break
        if hasattr(mod, "teardown"):
            mod.teardown(ctx)
    except Exception as e:
        harness_errors.append({"case": None, "error": repr(e), "tb": traceback.format_exc()[-3000:]})
    line_cov = {}
    if cov is not None:
        try:
            try:
                cov.stop()
            except Exception:
                pass
            for f in cov.get_data().measured_files():
                _, stmts, _, missing, _ = cov.analysis2(f)
                line_cov[os.path.relpath(f, repo)] = {"statements": len(stmts), "executed": len(stmts) - len(missing),
                                                      "missing": list(missing)}
        except Exception as e:
            line_cov = {"error": repr(e)}
    out = ctx.dump()
    out["line_coverage"] = line_cov
    out["harness_errors"] = harness_errors
    from vmon.util import jsonable
    out["hangs"] = jsonable(hangs)
    out["wall_s"] = time.time() - t0
    out["persim_file"] = persim.__file__
    with open(a.out, "w") as f:
        json.dump(out, f)
    faulthandler.cancel_dump_traceback_later()


if __name__ == "__main__":
    main()
