"""Independent oracle for persistence images: pixel value = sum_points weight * kernel mass over the pixel's square.
Mass by direct integration of the density (never by CDF inclusion-exclusion of a bivariate CDF). No persim import."""
import math
import warnings

import numpy as np
from scipy.integrate import quad
from scipy.special import ndtr


def norm_mass(lo, hi, m, s):
    """mass of N(m, s^2) on [lo, hi], computed on the side where no cancellation occurs"""
    a, b = (lo - m) / s, (hi - m) / s
    if a >= 0:
        return float(ndtr(-a) - ndtr(-b))
    return float(ndtr(b) - ndtr(a))


def logistic_mass(lo, hi, m, s):
    f = lambda z: 0.5 * (1 + math.tanh(0.5 * (z - m) / s))
    return f(hi) - f(lo)


def box_overlap(lo, hi, c, w):
    return max(0.0, min(hi, c + w / 2) - max(lo, c - w / 2))


def gaussian_pixel_mass(b0, b1, p0, p1, mu, cov):
    vx, vy, cxy = float(cov[0][0]), float(cov[1][1]), float(cov[0][1])
    sx, sy = math.sqrt(vx), math.sqrt(vy)
    if cxy == 0.0:
        return norm_mass(b0, b1, mu[0], sx) * norm_mass(p0, p1, mu[1], sy)
    r = cxy / (sx * sy)
    s = sy * math.sqrt((1 - r) * (1 + r))

    def f(x):
        m = mu[1] + r * sy / sx * (x - mu[0])
        z = (x - mu[0]) / sx
        return math.exp(-0.5 * z * z) / (sx * math.sqrt(2 * math.pi)) * norm_mass(p0, p1, m, s)
    lo, hi = max(b0, mu[0] - 40 * sx), min(b1, mu[0] + 40 * sx)
    if hi <= lo:
        return 0.0
    # piecewise integration between break points: the Gaussian's own scale around the mean (a pixel can be hundreds of
    # sigma wide - adaptive quadrature on the whole pixel under-resolves the peak by ~1e-6) and the places where the
    # conditional mean crosses the pixel's persistence band
    cuts = {lo, hi}
    for kk in (-12, -8, -5, -3, -2, -1, 0, 1, 2, 3, 5, 8, 12):
        q = mu[0] + kk * sx
        if lo < q < hi:
            cuts.add(q)
    if r != 0:
        w = s * sx / abs(r * sy)
        for pv in (p0, p1):
            xc = mu[0] + (pv - mu[1]) * sx / (r * sy)
            for q in (xc - 8 * w, xc - 3 * w, xc - w, xc, xc + w, xc + 3 * w, xc + 8 * w):
                if lo < q < hi:
                    cuts.add(q)
    cuts = sorted(cuts)
    tot = 0.0
    with warnings.catch_warnings():
        warnings.simplefilter("ignore")
        for a, b in zip(cuts, cuts[1:]):
            v, _ = quad(f, a, b, epsabs=1e-15, epsrel=1e-12, limit=200)
            tot += v
    return float(tot)


def pixel_edges(origin, ps, n):
    return [origin + i * ps for i in range(n + 1)]


def expected_image(points_bp, weights, kernel, geom):
    """points_bp: (n,2) birth-persistence; weights: (n,); kernel: dict(kind=..., params); geom: dict(b0,p0,ps,nb,np)"""
    nb, npx = geom["nb"], geom["np"]
    be = pixel_edges(geom["b0"], geom["ps"], nb)
    pe = pixel_edges(geom["p0"], geom["ps"], npx)
    img = np.zeros((nb, npx))
    per_point = []
    for (b, p), w in zip(points_bp, weights):
        one = np.zeros((nb, npx))
        kind = kernel["kind"]
        if kind == "uniform":
            wx, hy = kernel["width"], kernel["height"]
            ox = [box_overlap(be[i], be[i + 1], b, wx) / wx for i in range(nb)]
            oy = [box_overlap(pe[j], pe[j + 1], p, hy) / hy for j in range(npx)]
            one = np.outer(ox, oy)
        elif kind == "logistic":
            s = kernel["s"]
            one = np.outer([logistic_mass(be[i], be[i + 1], b, s) for i in range(nb)],
                           [logistic_mass(pe[j], pe[j + 1], p, s) for j in range(npx)])
        else:
            cov = kernel["cov"]
            if cov[0][1] == 0.0:
                sx, sy = math.sqrt(cov[0][0]), math.sqrt(cov[1][1])
                one = np.outer([norm_mass(be[i], be[i + 1], b, sx) for i in range(nb)],
                               [norm_mass(pe[j], pe[j + 1], p, sy) for j in range(npx)])
            else:
                for i in range(nb):
                    for j in range(npx):
                        one[i, j] = gaussian_pixel_mass(be[i], be[i + 1], pe[j], pe[j + 1], (b, p), cov)
        per_point.append(one)
        img += w * one
    return img, per_point


def _norm_mass_vec(lo, hi, m, s):
    """vectorised norm_mass: lo, hi (P,), m (n,) -> (n, P), each entry computed on its cancellation-free side"""
    a = (lo[None, :] - m[:, None]) / s
    b = (hi[None, :] - m[:, None]) / s
    return np.where(a >= 0, ndtr(-a) - ndtr(-b), ndtr(b) - ndtr(a))


def expected_image_separable(points_bp, weights, kernel, geom):
    """the same definition as expected_image for kernels that factor over the two axes (uncorrelated Gaussian, uniform box,
    logistic product), vectorised over the points so that diagrams of many thousand pairs can be judged"""
    nb, npx = geom["nb"], geom["np"]
    be = np.array(pixel_edges(geom["b0"], geom["ps"], nb)); pe = np.array(pixel_edges(geom["p0"], geom["ps"], npx))
    P = np.asarray(points_bp, float).reshape(-1, 2)
    w = np.asarray(weights, float)
    kind = kernel["kind"]
    if kind == "uniform":
        wx, hy = kernel["width"], kernel["height"]
        mb = np.maximum(0.0, np.minimum(be[None, 1:], P[:, 0:1] + wx / 2) - np.maximum(be[None, :-1], P[:, 0:1] - wx / 2)) / wx
        mp = np.maximum(0.0, np.minimum(pe[None, 1:], P[:, 1:2] + hy / 2) - np.maximum(pe[None, :-1], P[:, 1:2] - hy / 2)) / hy
    elif kind == "logistic":
        f = lambda z, m: 0.5 * (1 + np.tanh(0.5 * (z[None, :] - m[:, None]) / kernel["s"]))
        mb = f(be[1:], P[:, 0]) - f(be[:-1], P[:, 0]); mp = f(pe[1:], P[:, 1]) - f(pe[:-1], P[:, 1])
    else:
        cov = kernel["cov"]
        if cov[0][1] != 0.0:
            raise ValueError("not separable")
        mb = _norm_mass_vec(be[:-1], be[1:], P[:, 0], math.sqrt(cov[0][0]))
        mp = _norm_mass_vec(pe[:-1], pe[1:], P[:, 1], math.sqrt(cov[1][1]))
    return mb.T @ (w[:, None] * mp)
