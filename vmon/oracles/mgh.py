"""Independent oracle for the modified Gromov-Hausdorff distance between shortest-path metric spaces of graphs.
Own BFS metric, exact minimum distortion by backtracking, distortion of a given map, graph families. No persim import."""
import time
from collections import deque

import numpy as np


class OracleTimeout(Exception):
    pass


def bfs_metric(adj):
    """adj: square 0/1 array-like, any triangle may be filled; returns list-of-lists distance matrix (inf -> -1)"""
    A = np.asarray(adj)
    A = (A != 0) | (A != 0).T
    n = len(A)
    nb = [np.nonzero(A[i])[0].tolist() for i in range(n)]
    D = [[-1] * n for _ in range(n)]
    for s in range(n):
        D[s][s] = 0
        q = deque([s])
        while q:
            u = q.popleft()
            for v in nb[u]:
                if v != u and D[s][v] < 0:
                    D[s][v] = D[s][u] + 1
                    q.append(v)
    return D


def components(adj):
    A = np.asarray(adj)
    A = (A != 0) | (A != 0).T
    n = len(A)
    seen, comps = [False] * n, []
    for s in range(n):
        if not seen[s]:
            comp, q = [], deque([s])
            seen[s] = True
            while q:
                u = q.popleft(); comp.append(u)
                for v in np.nonzero(A[u])[0].tolist():
                    if not seen[v]:
                        seen[v] = True; q.append(v)
            comps.append(sorted(comp))
    return comps


def distortion(DX, DY, f):
    """distortion of the map f: X -> Y (list of images), recomputed over all pairs"""
    n = len(DX)
    best = 0
    for i in range(n):
        fi = f[i]
        for j in range(i + 1, n):
            v = abs(DX[i][j] - DY[fi][f[j]])
            if v > best:
                best = v
    return best


def exists_map(DX, DY, t, deadline):
    """is there a map f: X->Y with |dX(x,x') - dY(f x, f x')| <= t for all pairs?  backtracking with pruning"""
    n, m = len(DX), len(DY)
    if n == 0:
        return True
    # order X by decreasing eccentricity-ish (sum of distances) to prune early
    order = sorted(range(n), key=lambda i: -sum(DX[i]))
    img = [0] * n
    cnt = [0]

    def rec(k):
        cnt[0] += 1
        if (cnt[0] & 4095) == 0 and time.monotonic() > deadline:
            raise OracleTimeout()
        if k == n:
            return True
        x = order[k]
        rowx = DX[x]
        for y in range(m):
            rowy = DY[y]
            ok = True
            for kk in range(k):
                xp = order[kk]
                if abs(rowx[xp] - rowy[img[xp]]) > t:
                    ok = False
                    break
            if ok:
                img[x] = y
                if rec(k + 1):
                    return True
        return False
    return rec(0)


def min_distortion(DX, DY, deadline):
    top = max(max(map(max, DX)), max(map(max, DY))) if len(DX) and len(DY) else 0
    for t in range(0, top + 1):
        if exists_map(DX, DY, t, deadline):
            return t
    return top


def mgh_exact_doubled(DX, DY, timeout=20.0):
    """2 * mGH(X, Y) = max(min distortion X->Y, min distortion Y->X)"""
    deadline = time.monotonic() + timeout
    return max(min_distortion(DX, DY, deadline), min_distortion(DY, DX, deadline))


def twin_reduce(D, keep):
    """Exact size reduction for mGH against a space with < keep points.  Twins = points x,y with d(x,z)=d(y,z) for every
    other z.  Keeping min(multiplicity, keep) members of every twin class changes neither minimum distortion when
    keep >= |Y|+1: maps Y->X use at most |Y| points, and a map X'->Y of a class with |Y|+1 members repeats an image, so
    every further twin can be sent to that repeated image without creating a new distortion value."""
    n = len(D)
    A = np.asarray(D)
    parent = list(range(n))

    def find(a):
        while parent[a] != a:
            parent[a] = parent[parent[a]]
            a = parent[a]
        return a
    sig = {}
    for i in range(n):
        sig.setdefault(tuple(sorted(A[i].tolist())), []).append(i)
    for group in sig.values():
        for ai in range(len(group)):
            for bi in range(ai + 1, len(group)):
                x, y = group[ai], group[bi]
                if find(x) == find(y):
                    continue
                mask = np.ones(n, bool); mask[[x, y]] = False
                if np.array_equal(A[x][mask], A[y][mask]):
                    parent[find(x)] = find(y)
    classes = {}
    for i in range(n):
        classes.setdefault(find(i), []).append(i)
    keep_idx = sorted(v for members in classes.values() for v in members[:keep])
    return [[int(A[i][j]) for j in keep_idx] for i in keep_idx], len(classes)


def improve_map(DX, DY, f, rounds=3):
    """local search (single-vertex reassignment) that can only lower the distortion; returns (f, dis)"""
    f = list(f)
    n, m = len(DX), len(DY)
    cur = distortion(DX, DY, f)
    for _ in range(rounds):
        changed = False
        for x in range(n):
            if cur == 0:
                return f, 0
            old = f[x]
            for y in range(m):
                if y == old:
                    continue
                f[x] = y
                v = distortion(DX, DY, f)
                if v < cur:
                    cur, old, changed = v, y, True
            f[x] = old
        if not changed:
            break
    return f, cur


# ---- graph families (adjacency as symmetric 0/1 int arrays) ------------------------------------------------------
def _empty(n):
    return np.zeros((n, n), dtype=int)


def _edges(n, es):
    A = _empty(n)
    for u, v in es:
        if u != v:
            A[u, v] = A[v, u] = 1
    return A


def path(n): return _edges(n, [(i, i + 1) for i in range(n - 1)])
def cycle(n): return _edges(n, [(i, (i + 1) % n) for i in range(n)]) if n >= 3 else path(n)
def star(n): return _edges(n, [(0, i) for i in range(1, n)])
def complete(n): return _edges(n, [(i, j) for i in range(n) for j in range(i + 1, n)])


def complete_bipartite(a, b):
    return _edges(a + b, [(i, a + j) for i in range(a) for j in range(b)])


def spider(legs):
    es, nxt = [], 1
    for L in legs:
        prev = 0
        for _ in range(L):
            es.append((prev, nxt)); prev = nxt; nxt += 1
    return _edges(nxt, es)


def caterpillar(spine, hairs):
    es = [(i, i + 1) for i in range(spine - 1)]
    nxt = spine
    for i, h in enumerate(hairs[:spine]):
        for _ in range(h):
            es.append((i, nxt)); nxt += 1
    return _edges(nxt, es)


def random_tree(rng, n):
    return _edges(n, [(i, int(rng.integers(0, i))) for i in range(1, n)])


def lollipop(k, tail):
    es = [(i, j) for i in range(k) for j in range(i + 1, k)]
    prev = k - 1
    for t in range(tail):
        es.append((prev, k + t)); prev = k + t
    return _edges(k + tail, es)


def barbell(k, bridge):
    es = [(i, j) for i in range(k) for j in range(i + 1, k)]
    off = k + bridge
    es += [(off + i, off + j) for i in range(k) for j in range(i + 1, k)]
    chain = [k - 1] + [k + t for t in range(bridge)] + [off]
    es += list(zip(chain, chain[1:]))
    return _edges(2 * k + bridge, es)


def grid(a, b):
    idx = lambda i, j: i * b + j
    es = [(idx(i, j), idx(i + 1, j)) for i in range(a - 1) for j in range(b)]
    es += [(idx(i, j), idx(i, j + 1)) for i in range(a) for j in range(b - 1)]
    return _edges(a * b, es)


def gnp_connected(rng, n, p):
    for _ in range(50):
        U = np.triu((rng.random((n, n)) < p).astype(int), 1)
        A = U + U.T
        if len(components(A)) == 1:
            return A
    T = random_tree(rng, n)
    U = np.triu((rng.random((n, n)) < p).astype(int), 1)
    return ((T + U + U.T) > 0).astype(int)


def relabel(rng, A):
    p = rng.permutation(len(A))
    return A[np.ix_(p, p)], p


def random_connected(rng, nmax, nmin=1):
    n = int(rng.integers(nmin, nmax + 1))
    fam = str(rng.choice(["path", "cycle", "star", "spider", "caterpillar", "tree", "lollipop", "barbell", "grid", "complete",
                          "bipartite", "gnp", "gnp"]))
    if n <= 2 or fam == "path":
        A = path(n)
    elif fam == "cycle":
        A = cycle(n)
    elif fam == "star":
        A = star(n)
    elif fam == "spider":
        k = int(rng.integers(2, 5)); legs = [1] * k
        for _ in range(max(0, n - 1 - k)):
            legs[int(rng.integers(0, k))] += 1
        A = spider(legs[: max(1, min(k, n - 1))])
    elif fam == "caterpillar":
        s = max(1, n // 2); hairs = [0] * s
        for _ in range(n - s):
            hairs[int(rng.integers(0, s))] += 1
        A = caterpillar(s, hairs)
    elif fam == "tree":
        A = random_tree(rng, n)
    elif fam == "lollipop":
        k = int(rng.integers(2, max(3, n - 1))); A = lollipop(min(k, n), max(0, n - k))
    elif fam == "barbell":
        k = max(2, (n - int(rng.integers(0, 3))) // 2); br = max(0, n - 2 * k)
        A = barbell(k, br) if 2 * k + br == n and k >= 2 else path(n)
    elif fam == "grid":
        a = int(rng.integers(1, max(2, int(n ** 0.5) + 1))); A = grid(a, max(1, n // a))
    elif fam == "complete":
        A = complete(n)
    elif fam == "bipartite":
        a = int(rng.integers(1, n)); A = complete_bipartite(a, n - a)
    else:
        A = gnp_connected(rng, n, float(rng.choice([0.2, 0.35, 0.5, 0.8])))
    if len(A) == 0:
        A = path(1)
    return A, fam


def two_switch(rng, A, times=1):
    """degree-preserving edge switches: (a,b),(c,d) -> (a,d),(c,b); keeps the graph simple and connected, else returns it unchanged.
    The result has the same degree sequence (for diameter-2 graphs: the same per-vertex distance profiles) but is usually not isomorphic."""
    B = np.array(A, copy=True)
    n = len(B)
    for _ in range(times):
        for _try in range(30):
            es = np.argwhere(np.triu(B, 1) > 0)
            if len(es) < 2:
                return B
            (a, b), (c, d) = es[rng.integers(0, len(es))], es[rng.integers(0, len(es))]
            if rng.random() < 0.5:
                c, d = d, c
            if len({a, b, c, d}) < 4 or B[a, d] or B[c, b]:
                continue
            C = B.copy()
            C[a, b] = C[b, a] = C[c, d] = C[d, c] = 0
            C[a, d] = C[d, a] = C[c, b] = C[b, c] = 1
            if len(components(C)) == 1:
                B = C
                break
    return B
