"""Independent oracles for the bottleneck / Wasserstein distances, written from the property statements.
No persim import; scalar python for the cost rules; scipy's integer-indexed matching / assignment solvers."""
import math

import numpy as np
from scipy.optimize import linear_sum_assignment
from scipy.sparse import csr_matrix
from scipy.sparse.csgraph import maximum_bipartite_matching

SQRT2 = math.sqrt(2.0)


def finite_rows(dgm):
    a = np.asarray(dgm, dtype=float)
    if a.size == 0:
        return []
    a = a.reshape(-1, a.shape[-1])
    return [(float(b), float(d)) for b, d in a[:, :2] if math.isfinite(d)]


def cross_cost(p, q, kind):
    if kind == "bn":
        return max(abs(p[0] - q[0]), abs(p[1] - q[1]))
    return math.hypot(p[0] - q[0], p[1] - q[1])


def diag_cost(p, kind):
    if kind == "bn":
        return (p[1] - p[0]) / 2.0
    return (p[1] - p[0]) / SQRT2


def exhaustive(S, T, kind):
    """min over all partial matchings (every point paired with a point of the other diagram or with the diagonal)
    of max (bn) / sum (ws) of pairing costs.  Plain recursion with branch-and-bound. Returns (value, pairs)
    with pairs = list of (i, j) using -1 for the diagonal."""
    M, N = len(S), len(T)
    cross = [[cross_cost(S[i], T[j], kind) for j in range(N)] for i in range(M)]
    ds = [diag_cost(p, kind) for p in S]
    dt = [diag_cost(q, kind) for q in T]
    comb = max if kind == "bn" else (lambda a, b: a + b)
    best = [math.inf, None]
    used = [False] * N
    cur = []

    def rest_T(acc):
        for j in range(N):
            if not used[j]:
                acc = comb(acc, dt[j])
        return acc

    def rec(i, acc):
        if acc >= best[0] and best[1] is not None:
            return
        if i == M:
            tot = rest_T(acc)
            if tot < best[0] or best[1] is None:
                best[0] = tot
                best[1] = list(cur) + [(-1, j) for j in range(N) if not used[j]]
            return
        order = sorted(range(N), key=lambda j: cross[i][j])
        for j in order:
            if not used[j]:
                used[j] = True
                cur.append((i, j))
                rec(i + 1, comb(acc, cross[i][j]))
                cur.pop()
                used[j] = False
        cur.append((i, -1))
        rec(i + 1, comb(acc, ds[i]))
        cur.pop()

    rec(0, 0.0)
    return best[0], best[1]


def augmented(S, T, kind, inf=math.inf):
    """(M+N)x(M+N) table of the statement's reduction: rows = S points then one diagonal copy per T point,
    columns = T points then one diagonal copy per S point."""
    M, N = len(S), len(T)
    D = [[inf] * (M + N) for _ in range(M + N)]
    for i in range(M):
        for j in range(N):
            D[i][j] = cross_cost(S[i], T[j], kind)
        D[i][N + i] = diag_cost(S[i], kind)
    for j in range(N):
        D[M + j][j] = diag_cost(T[j], kind)
        for i in range(M):
            D[M + j][N + i] = 0.0
    return D


def bottleneck_threshold(S, T):
    """bottleneck value by bisection over the distinct finite costs with scipy's Hopcroft-Karp as the
    perfect-matching test on the augmented table."""
    M, N = len(S), len(T)
    if M + N == 0:
        return 0.0
    D = np.array(augmented(S, T, "bn"))
    cand = np.unique(D[np.isfinite(D)])
    lo, hi = 0, len(cand) - 1   # cand[hi] is always feasible (all-diagonal matching has finite cost <= max)

    def feasible(t):
        G = csr_matrix((D <= t).astype(np.int8))
        m = maximum_bipartite_matching(G, perm_type="column")
        return bool(np.all(m >= 0))

    while lo < hi:
        mid = (lo + hi) // 2
        if feasible(cand[mid]):
            hi = mid
        else:
            lo = mid + 1
    return float(cand[lo])


def wasserstein_lsa(S, T):
    """min-sum value by the Hungarian method on a table with a *different layout* from persim's: any diagonal slot
    may absorb any point (no infinities needed), which has the same optimum."""
    M, N = len(S), len(T)
    if M + N == 0:
        return 0.0
    C = np.zeros((M + N, M + N))
    for i in range(M):
        for j in range(N):
            C[i, j] = cross_cost(S[i], T[j], "ws")
        C[i, N:] = diag_cost(S[i], "ws")
    for j in range(N):
        C[M:, j] = diag_cost(T[j], "ws")
    r, c = linear_sum_assignment(C)
    return float(C[r, c].sum())


def all_diagonal(S, T, kind):
    vals = [diag_cost(p, kind) for p in S] + [diag_cost(q, kind) for q in T]
    if not vals:
        return 0.0
    return max(vals) if kind == "bn" else math.fsum(vals)


def finite_costs(S, T, kind):
    out = {0.0}
    for p in S:
        out.add(diag_cost(p, kind))
        for q in T:
            out.add(cross_cost(p, q, kind))
    for q in T:
        out.add(diag_cost(q, kind))
    return out


def certify(S, T, rows, kind, tol):
    """Check that `rows` (k,3) is a certificate per the statement of C06. S, T are the diagrams *after* replacing an
    empty diagram by the one-point diagram (0,0). Returns (ok, reason, total) where total = max / sum of costs."""
    M, N = len(S), len(T)
    seen_i, seen_j = [], []
    costs = []
    for r, row in enumerate(rows):
        if len(row) != 3:
            return False, "row %d has %d entries" % (r, len(row)), None
        i, j, c = row
        if i != int(i) or j != int(j):
            return False, "row %d: non-integer index" % r, None
        i, j = int(i), int(j)
        if i == -1 and j == -1:
            return False, "row %d pairs diagonal with diagonal" % r, None
        if not (-1 <= i < M) or not (-1 <= j < N):
            return False, "row %d: index out of range (%d,%d)" % (r, i, j), None
        if i >= 0:
            seen_i.append(i)
        if j >= 0:
            seen_j.append(j)
        if i >= 0 and j >= 0:
            want = cross_cost(S[i], T[j], kind)
        elif i >= 0:
            want = diag_cost(S[i], kind)
        else:
            want = diag_cost(T[j], kind)
        if not abs(c - want) <= tol:
            return False, "row %d (%d,%d): cost %r but pairing costs %r" % (r, i, j, c, want), None
        costs.append(float(c))
    if sorted(seen_i) != list(range(M)):
        return False, "first-diagram indices %s are not each exactly once (M=%d)" % (sorted(seen_i), M), None
    if sorted(seen_j) != list(range(N)):
        return False, "second-diagram indices %s are not each exactly once (N=%d)" % (sorted(seen_j), N), None
    total = (max(costs) if costs else 0.0) if kind == "bn" else math.fsum(costs)
    return True, "", total
