"""Independent oracle for persistence landscapes: the k-th-largest-tent definition, and exact comparison of
piecewise-linear (PL) functions on the union of their breakpoints. No persim import."""
import math

import numpy as np


def tents(bars, t):
    return [max(0.0, min(t - b, d - t)) for b, d in bars]


def lam(bars, k, t):
    """k-th largest (k>=1) tent value at t; 0 if k > number of bars"""
    if k > len(bars):
        return 0.0
    v = sorted(tents(bars, t), reverse=True)
    return v[k - 1]


def lam_all(bars, ts):
    """matrix (n_bars, len(ts)): row k-1 = lambda_k at ts (vectorised)"""
    bars = np.asarray(bars, float).reshape(-1, 2)
    ts = np.asarray(ts, float)
    if len(bars) == 0:
        return np.zeros((0, len(ts)))
    T = np.minimum(ts[None, :] - bars[:, 0:1], bars[:, 1:2] - ts[None, :])
    T = np.maximum(T, 0.0)
    return -np.sort(-T, axis=0)


def true_breakpoints(bars):
    """superset of the breakpoints of every lambda_k: births, deaths, tent peaks and rising/falling intersections"""
    bars = np.asarray(bars, float).reshape(-1, 2)
    if len(bars) == 0:
        return np.zeros(0)
    b, d = bars[:, 0], bars[:, 1]
    x = (b[:, None] + d[None, :]) / 2.0
    return np.unique(np.concatenate([b, d, x.ravel()]))


def pl_eval(pairs, ts):
    """value at ts of the PL function through `pairs` (list of [x,y], x non-decreasing), vanishing outside"""
    ts = np.asarray(ts, float)
    if len(pairs) == 0:
        return np.zeros_like(ts)
    xs = np.array([float(p[0]) for p in pairs])
    ys = np.array([float(p[1]) for p in pairs])
    return np.interp(ts, xs, ys, left=0.0, right=0.0)


def pl_shape_problems(pairs, tol):
    """structural problems of one depth's critical points: returns list of strings"""
    out = []
    xs = [float(p[0]) for p in pairs]
    ys = [float(p[1]) for p in pairs]
    if any(not math.isfinite(v) for v in xs + ys):
        out.append("non-finite critical point")
        return out
    for i in range(len(xs) - 1):
        if xs[i + 1] < xs[i]:
            out.append("abscissae decrease at index %d (%r -> %r)" % (i, xs[i], xs[i + 1]))
        if xs[i + 1] == xs[i] and abs(ys[i + 1] - ys[i]) > tol:
            out.append("jump at x=%r (%r -> %r)" % (xs[i], ys[i], ys[i + 1]))
    return out


def eval_grid(bars, impl_depths):
    """evaluation abscissae on which two PL functions that agree, agree everywhere: union of both breakpoint sets,
    all consecutive midpoints, and two points outside the support"""
    pts = [true_breakpoints(bars)]
    for dp in impl_depths:
        pts.append(np.array([float(p[0]) for p in dp if math.isfinite(float(p[0]))]))
    u = np.unique(np.concatenate(pts)) if pts else np.zeros(0)
    if len(u) == 0:
        return np.array([0.0])
    mids = (u[:-1] + u[1:]) / 2.0
    span = max(u[-1] - u[0], abs(u[0]), abs(u[-1]), 1e-300)
    return np.unique(np.concatenate([u, mids, [u[0] - span, u[-1] + span, u[0] - 0.37 * span, u[-1] + 0.41 * span]]))


def compare_exact(bars, depths, tol, max_points=60000):
    """comparison of an exact landscape's critical pairs with the definition: complete (every breakpoint of either side,
    every midpoint) when that grid has at most max_points abscissae; for larger diagrams a deterministic sample of it (all of
    the implementation's breakpoints first).  Evaluated in column chunks so that memory stays bounded.
    returns (first_wrong_depth_index or None, witness dict)"""
    ts = eval_grid(bars, depths)
    sampled = False
    if len(ts) > max_points:
        sampled = True
        own = np.unique(np.array([float(p[0]) for dp in depths for p in dp if math.isfinite(float(p[0]))]))
        r = np.random.default_rng([len(ts), len(own)])
        if len(own) > max_points // 2:
            own = r.choice(own, max_points // 2, replace=False)
        rest = r.choice(ts, max_points - len(own), replace=False)
        ts = np.unique(np.concatenate([own, rest, ts[:2], ts[-2:]]))
    n = len(bars)
    K = max(n, len(depths))
    chunk = max(1, 4000000 // max(n, 1))
    best = None
    for c0 in range(0, len(ts), chunk):
        tc = ts[c0:c0 + chunk]
        want = lam_all(bars, tc)                     # (n, T)
        for k in range(K if best is None else best[0] + 1):
            w = want[k] if k < n else np.zeros(len(tc))
            g = pl_eval(depths[k], tc) if k < len(depths) else np.zeros(len(tc))
            bad = np.nonzero(~(np.abs(g - w) <= tol))[0]
            if len(bad):
                i = int(bad[0])
                if best is None or k < best[0]:
                    best = (k, {"depth": k + 1, "t": float(tc[i]), "got": float(g[i]), "want": float(w[i]),
                                "n_bad_points": int(len(bad)), "sampled_grid": sampled})
                break
    return best if best is not None else (None, {})


def sweep_reference(bars):
    """Independent re-implementation of the Bubenik-Dlotko sweep *without* any repeated-bar shortcut (every copy of a
    bar is an ordinary bar).  Used only to attribute mismatches to the known finding: returns (depths, heads) where
    heads[i] = (first bar, its multiplicity) in the residual list at the start of depth i.  Its own output is
    validated against the definition by the caller, so it never decides correctness."""
    A = sorted(((float(b), float(d)) for b, d in bars), key=lambda x: (x[0], -x[1]))
    depths, heads = [], []
    while A:
        heads.append((A[0], sum(1 for x in A if x == A[0])))
        b, d = A.pop(0)
        pts = [[b, 0.0], [(b + d) / 2, (d - b) / 2]]
        while True:
            nxt = next((i for i, x in enumerate(A) if x[1] > d), None)
            if nxt is None:
                pts.append([d, 0.0])
                break
            b2, d2 = A.pop(nxt)
            if b2 > d:
                pts += [[d, 0.0], [b2, 0.0]]
            elif b2 == d:
                pts.append([b2, 0.0])
            else:
                pts.append([(b2 + d) / 2, (d - b2) / 2])
                pos = len(A)
                for i, x in enumerate(A):
                    if (x[0], -x[1]) >= (b2, -d):
                        pos = i
                        break
                A.insert(pos, (b2, d))
            pts.append([(b2 + d2) / 2, (d2 - b2) / 2])
            b, d = b2, d2
        depths.append(pts)
    return depths, heads
