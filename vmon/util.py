"""Small helpers shared by driver, workers and property modules (no persim import)."""
import hashlib
import json
import math

import numpy as np


def jsonable(x):
    """Convert numpy / nested containers to plain JSON-able python (python JSON dialect: inf/nan kept)."""
    if isinstance(x, np.ndarray):
        return jsonable(x.tolist())
    if isinstance(x, (np.floating,)):
        return float(x)
    if isinstance(x, (np.integer,)):
        return int(x)
    if isinstance(x, (np.bool_,)):
        return bool(x)
    if isinstance(x, complex):
        return {"re": x.real, "im": x.imag}
    if isinstance(x, dict):
        return {str(k): jsonable(v) for k, v in x.items()}
    if isinstance(x, (list, tuple)):
        return [jsonable(v) for v in x]
    if isinstance(x, (set, frozenset)):
        return sorted(jsonable(v) for v in x)
    if isinstance(x, (str, int, float, bool)) or x is None:
        return x
    if hasattr(x, "toarray"):
        return {"sparse": type(x).__name__, "dense": jsonable(x.toarray())}
    return repr(x)


def strict_json(x):
    """Like jsonable but non-finite floats become strings, so the file is standard JSON."""
    x = jsonable(x)

    def fix(v):
        if isinstance(v, float) and not math.isfinite(v):
            return "inf" if v > 0 else ("-inf" if v < 0 else "nan")
        if isinstance(v, dict):
            return {k: fix(w) for k, w in v.items()}
        if isinstance(v, list):
            return [fix(w) for w in v]
        return v

    return fix(x)


def digest(*objs):
    """Stable 16-hex digest of JSON-able objects (floats via repr => exact)."""
    h = hashlib.blake2b(digest_size=8)
    for o in objs:
        h.update(json.dumps(jsonable(o), sort_keys=True).encode())
        h.update(b"|")
    return h.hexdigest()


def arr_snapshot(a):
    """Byte-level snapshot of an argument (ndarray, sparse, nested list, scalar, dict)."""
    if isinstance(a, np.ndarray):
        return ("nd", str(a.dtype), a.shape, a.tobytes())
    if hasattr(a, "toarray") and hasattr(a, "format"):
        d = a.toarray()
        return ("sp", a.format, str(a.dtype), a.shape, d.tobytes())
    if isinstance(a, (list, tuple)):
        return (type(a).__name__, tuple(arr_snapshot(v) for v in a))
    if isinstance(a, dict):
        return ("dict", tuple((k, arr_snapshot(v)) for k, v in sorted(a.items(), key=lambda kv: str(kv[0]))))
    if isinstance(a, (np.generic,)):
        return ("npscalar", str(a.dtype), a.tobytes())
    if isinstance(a, (int, float, str, bool, complex)) or a is None:
        return ("py", type(a).__name__, repr(a))
    return ("obj", type(a).__name__)


def scale_of(*arrs, tiny=1e-300):
    m = 0.0
    for a in arrs:
        a = np.asarray(a, dtype=float)
        if a.size:
            f = a[np.isfinite(a)]
            if f.size:
                m = max(m, float(np.max(np.abs(f))))
    return max(m, tiny)
