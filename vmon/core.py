"""Driver: fans a property's workload out to worker subprocesses (one hash seed each), aggregates what the
monitors observed, applies the three-valued verdict discipline and the known-findings file, writes evidence."""
import collections
import importlib
import json
import os
import shutil
import subprocess
import sys
import time

from .util import strict_json

HERE = os.path.dirname(os.path.dirname(os.path.abspath(__file__)))
PY = "/venv/bin/python"
DEFAULT_TIMEOUT = {"quick": 1500, "thorough": 4 * 3600}
DEFAULT_SOFT = {"quick": 600, "thorough": 3 * 3600}


def ensure_deps():
    """Idempotent offline install of icontract beside the repository's interpreter (vp check restores only
    committed files, so .deps may be absent)."""
    deps = os.path.join(HERE, ".deps")
    if os.path.isdir(os.path.join(deps, "icontract")):
        return
    subprocess.run([PY, "-m", "pip", "install", "--quiet", "--no-index", "--find-links",
                    "/opt/veriftools/wheels", "--target", deps, "icontract"],
                   check=False, stdout=subprocess.DEVNULL, stderr=subprocess.DEVNULL)


def anchored_coverage(prop, line_cov):
    """reach evidence: executed / total statements of the property's anchor files, as seen by worker 0 (1/16 of the cases)"""
    try:
        anchors = []
        with open(os.path.join(HERE, "properties.jsonl")) as f:
            for ln in f:
                d = json.loads(ln)
                if d["id"] == prop:
                    anchors = d["anchors"]["files"]
        out = {}
        for a in anchors:
            c = line_cov.get(a)
            if c:
                out[a] = {"statements": c["statements"], "executed": c["executed"], "not_executed_lines": c["missing"][:80]}
            else:
                out[a] = "not measured"
        out["_note"] = "measured by coverage.py in worker 0 on a small leading slice of its cases only; evidence of reach, never a verdict"
        return out
    except Exception as e:
        return {"error": repr(e)}


def load_known():
    p = os.path.join(HERE, "known_findings.json")
    if not os.path.exists(p):
        return []
    with open(p) as f:
        return json.load(f).get("findings", [])


def plan_jobs(mod, tier, seed, ncpu, only_cases=None, hashseed=None):
    if only_cases is not None:
        return [{"wid": 0, "hashseed": hashseed if hashseed is not None else 1,
                 "cases": ",".join(str(k) for k in only_cases)}]
    if hasattr(mod, "plan"):
        return mod.plan(tier, seed, ncpu)
    n = mod.CASES[tier]
    reps = getattr(mod, "REPLICAS", {"quick": 1, "thorough": 1})[tier]
    w = max(1, ncpu // reps)
    jobs = []
    for r in range(reps):
        for j in range(w):
            jobs.append({"wid": len(jobs), "hashseed": 1 + (seed * 977 + r * w + j) % 1000003,
                         "cases": "%d:%d:%d" % (j, n, w)})
    return jobs


def run_jobs(prop, tier, seed, jobs, ncpu, timeout, soft, repo, case_timeout=120.0):
    work = os.path.join(HERE, ".work", "%s-%s-%d-%d" % (prop, tier, seed, os.getpid()))
    shutil.rmtree(work, ignore_errors=True)
    os.makedirs(work)
    env = dict(os.environ)
    env.update({"PERSIM_VERIF": "1", "MPLBACKEND": "Agg", "OMP_NUM_THREADS": "1", "OPENBLAS_NUM_THREADS": "1",
                "MKL_NUM_THREADS": "1", "VERIF_REPO": repo, "PYTHONDONTWRITEBYTECODE": "1",
                "PYTHONWARNINGS": "ignore::SyntaxWarning"})
    env.pop("PYTHONPATH", None)
    pending = list(jobs)
    running = []
    results, failures = [], []
    t0 = time.time()
    while pending or running:
        while pending and len(running) < ncpu:
            j = pending.pop(0)
            out = os.path.join(work, "w%d.json" % j["wid"])
            e = dict(env)
            e["PYTHONHASHSEED"] = str(j["hashseed"])
            cmd = [PY, "-X", "faulthandler", os.path.join(HERE, "vmon", "worker.py"), "--prop", prop,
                   "--tier", tier, "--seed", str(seed), "--wid", str(j["wid"]), "--cases", j["cases"],
                   "--out", out, "--soft-deadline", str(soft), "--case-timeout", str(case_timeout)]
            log = open(os.path.join(work, "w%d.log" % j["wid"]), "w")
            p = subprocess.Popen(cmd, env=e, stdout=log, stderr=subprocess.STDOUT, cwd=HERE)
            running.append((p, j, out, log, time.time()))
        time.sleep(0.05)
        still = []
        for p, j, out, log, ts in running:
            rc = p.poll()
            if rc is None:
                if time.time() - ts > timeout:
                    p.kill()
                    p.wait()
                    log.close()
                    failures.append({"wid": j["wid"], "reason": "watchdog (wall clock %ds)" % timeout})
                else:
                    still.append((p, j, out, log, ts))
                continue
            log.close()
            if rc != 0 or not os.path.exists(out):
                with open(log.name) as f:
                    tail = f.read()[-2000:]
                failures.append({"wid": j["wid"], "reason": "worker exit %s" % rc, "log": tail})
            else:
                with open(out) as f:
                    results.append(json.load(f))
        running = still
    shutil.rmtree(work, ignore_errors=True)
    return results, failures, time.time() - t0


def check(prop, tier, seed, replay=None, repo=None, quiet=False):
    ensure_deps()
    repo = os.path.realpath(repo or os.environ.get("VERIF_REPO", "/repo"))
    sys.path.insert(0, HERE)
    mod = importlib.import_module("vmon.props." + prop)
    ncpu = min(16, os.cpu_count() or 1)
    only = hs = None
    if replay:
        with open(replay) as f:
            rp = json.load(f)
        only, hs, seed, tier = [rp["violation"]["case"]], rp["violation"].get("hashseed"), rp["seed"], rp["tier"]
        try:
            hs = int(hs)
        except (TypeError, ValueError):
            hs = 1
    jobs = plan_jobs(mod, tier, seed, ncpu, only, hs)
    timeout = getattr(mod, "TIMEOUT", DEFAULT_TIMEOUT)[tier]
    soft = getattr(mod, "SOFT_DEADLINE", DEFAULT_SOFT)[tier]
    case_timeout = getattr(mod, "CASE_TIMEOUT", {"quick": 120.0, "thorough": 600.0})[tier]
    if os.environ.get("VERIF_CASE_TIMEOUT"):        # only the mutant self-test shortens it
        case_timeout = float(os.environ["VERIF_CASE_TIMEOUT"])
    results, failures, wall = run_jobs(prop, tier, seed, jobs, ncpu, timeout, soft, repo, case_timeout)

    # ---- aggregate ------------------------------------------------------------------------------------------
    C = collections.Counter
    clauses, clause_fail, classes, notes, sensors = C(), C(), C(), C(), C()
    sets = collections.defaultdict(set)
    nontrivial = set()
    violations, samples, harness_errors, hangs = [], [], [], []
    cases = evaluations = n_viol = 0
    viol_by_key = C()
    per_case = collections.defaultdict(dict)
    hashseeds = set()
    line_cov = {}
    for r in results:
        if r.get("line_coverage"):
            line_cov = r["line_coverage"]
        clauses.update(r["clauses"]); clause_fail.update(r["clause_fail"]); classes.update(r["classes"])
        notes.update(r["notes"]); sensors.update(r["sensors"])
        for k, v in r["sets"].items():
            sets[k].update(v)
        nontrivial.update(r["nontrivial"])
        violations.extend(r["violations"]); n_viol += r["n_viol"]; viol_by_key.update(r["viol_by_key"])
        cases += r["cases"]; evaluations += r["evaluations"]
        harness_errors.extend(r["harness_errors"])
        hangs.extend(r.get("hangs", []))
        hashseeds.add(str(r["hashseed"]))
        for k, d in r["results"].items():
            per_case[k][str(r["hashseed"])] = d
        for s in r["samples"]:
            if len(samples) < 6:
                samples.append(s)
    # cross-configuration clause: same case, different hash seed => same observable result
    cross_n = cross_bad = cross_distinct = 0
    cross_equal = getattr(mod, "CROSS_CONFIG_EQUAL", False)
    for k, d in per_case.items():
        if len(d) > 1:
            cross_n += 1
            if len(set(d.values())) > 1:
                cross_distinct += 1
                if cross_equal:
                    cross_bad += 1
                    violations.append({"clause": "cross-config-equal", "case": int(k), "class": "-", "key": None,
                                       "wid": -1, "hashseed": sorted(d)[0], "input": None,
                                       "info": {"digests_by_hashseed": d}})
                    n_viol += 1
                    viol_by_key["None"] += 1
    if cross_equal:
        clauses["cross-config-equal"] += cross_n
        clause_fail["cross-config-equal"] += cross_bad

    # ---- known findings --------------------------------------------------------------------------------------
    known = [k for k in load_known() if k.get("property") == prop and k.get("status") == "known"]
    known_keys = {k["key"]: k for k in known}
    new_viol = [v for v in violations if v.get("key") not in known_keys]
    # witnesses are stored up to a cap, but every failure is counted by key, so an unlisted violation can never
    # hide behind a flood of known ones
    known_hits = C({k: n for k, n in viol_by_key.items() if k in known_keys})
    unknown_count = sum(n for k, n in viol_by_key.items() if k not in known_keys)

    lines = []
    for key, n in known_hits.items():
        lines.append("KNOWN-FINDING: property=%s %s [key=%s, %d witnesses this run]" % (
            prop, known_keys[key]["what"], key, n))

    # ---- verdict ---------------------------------------------------------------------------------------------
    verdict = "held"
    reasons = []
    if unknown_count:
        verdict = "violated"
    else:
        if failures:
            reasons.append("worker failures: %s" % failures[:2])
        if harness_errors:
            reasons.append("harness errors: %s" % harness_errors[:2])
        if hangs:
            reasons.append("%d case(s) did not finish within twice the per-case budget (wall clock, so not a verdict): %s" % (
                len(hangs), json.dumps(strict_json(hangs[0]))[:600]))
        if not replay:
            for cl in getattr(mod, "REQUIRED", []):
                if clauses.get(cl, 0) == 0:
                    reasons.append("deciding clause %r evaluated 0 times" % cl)
            for nt in getattr(mod, "REQUIRED_NOTES", []):
                if notes.get(nt, 0) == 0:
                    reasons.append("required event %r observed 0 times" % nt)
            mn = getattr(mod, "MIN_NONTRIVIAL", {"quick": 2, "thorough": 2})[tier]
            if len(nontrivial) < mn:
                reasons.append("only %d distinct non-trivial cases (< %d)" % (len(nontrivial), mn))
            if notes.get("soft_deadline_hit"):
                reasons.append("soft deadline hit in %d workers" % notes["soft_deadline_hit"])
            ot = notes.get("oracle_timeout", 0)
            if cases and ot > 0.02 * cases:
                reasons.append("oracle timeouts on %d of %d cases" % (ot, cases))
        if reasons:
            verdict = "inconclusive"

    replay_paths = []
    if verdict == "violated":
        os.makedirs(os.path.join(HERE, "replays"), exist_ok=True)
        seen = set()
        for v in new_viol:
            sig = (v["clause"], v.get("key"))
            if sig in seen:
                continue
            seen.add(sig)
            path = os.path.join(HERE, "replays", "%s-s%d-c%s-%s.json" % (
                prop, seed, v["case"], "".join(ch if ch.isalnum() else "_" for ch in v["clause"])[:40]))
            with open(path, "w") as f:
                json.dump({"property": prop, "seed": seed, "tier": tier, "violation": v,
                           "replay_cmd": "./check %s --replay %s" % (prop, path)}, f, indent=1)
            replay_paths.append(path)
            lines.append("VIOLATION property=%s replay=%s" % (prop, path))
            lines.append("  clause=%s case=%s class=%s info=%s" % (
                v["clause"], v["case"], v["class"], json.dumps(strict_json(v["info"]))[:600]))
            if len(replay_paths) >= 8:
                break
    if verdict == "inconclusive":
        lines.append("INCONCLUSIVE property=%s reason=%s" % (prop, "; ".join(reasons)[:1500]))

    # ---- evidence --------------------------------------------------------------------------------------------
    if not replay:
        ev = {
            "property_id": prop, "tier": tier, "seed": seed, "level": "exploration",
            "coverage": {
                "evaluations": int(evaluations),
                "distinct_nontrivial": len(nontrivial),
                "rule": mod.RULE,
                "samples": strict_json(samples),
                "cases_generated": cases,
                "clause_evaluations": dict(clauses),
                "clause_failures": dict(clause_fail),
                "input_classes": dict(classes),
                "counters": dict(notes),
                "configurations": {"hash_seeds": sorted(hashseeds, key=lambda s: (len(s), s)),
                                   "workers": len(results),
                                   "cross_config_cases_compared": cross_n,
                                   "cross_config_cases_with_differing_results": cross_distinct,
                                   **{k: sorted(v)[:60] for k, v in sets.items()},
                                   **{"n_" + k: len(v) for k, v in sets.items()}},
                "sensors": dict(sensors),
                "anchored_line_coverage": anchored_coverage(prop, line_cov),
                "known_finding_hits": dict(known_hits),
                "verdict": verdict,
                "inconclusive_reasons": reasons,
                "repo": repo,
            },
            "assumptions": list(getattr(mod, "ASSUMPTIONS", [])),
            "wall_s": round(wall, 2),
            "violations": int(unknown_count),
        }
        os.makedirs(os.path.join(HERE, "evidence"), exist_ok=True)
        evp = os.environ.get("VERIF_EVIDENCE_DIR", os.path.join(HERE, "evidence"))
        os.makedirs(evp, exist_ok=True)
        with open(os.path.join(evp, prop + ".json"), "w") as f:
            json.dump(ev, f, indent=1, sort_keys=True)

    if not quiet:
        print("%s tier=%s seed=%d: %s — %d cases, %d monitored executions, %d distinct non-trivial, "
              "%d clause evaluations over %d clauses, %d workers/%d hash seeds, %.1fs" % (
                  prop, tier, seed, verdict.upper(), cases, evaluations, len(nontrivial),
                  sum(clauses.values()), len(clauses), len(results), len(hashseeds), wall))
        for cl in sorted(clauses):
            print("   clause %-34s evaluated %8d  failed %6d" % (cl, clauses[cl], clause_fail.get(cl, 0)))
        for ln in lines:
            print(ln)
    sys.stdout.flush()
    return {"verdict": verdict, "lines": lines, "violations": new_viol, "clauses": clauses,
            "clause_fail": clause_fail, "nontrivial": len(nontrivial), "notes": notes, "reasons": reasons,
            "known_hits": known_hits, "wall": wall}


def main(argv=None):
    import argparse
    ap = argparse.ArgumentParser()
    ap.add_argument("prop")
    ap.add_argument("--tier", default=None)
    ap.add_argument("--seed", type=int, default=None)
    ap.add_argument("--replay", default=None)
    ap.add_argument("--repo", default=None)
    a = ap.parse_args(argv)
    tier = a.tier or os.environ.get("VERIF_TIER") or "quick"
    seed = a.seed if a.seed is not None else int(os.environ.get("VERIF_SEED", "0") or 0)
    r = check(a.prop, tier, seed, replay=a.replay, repo=a.repo)
    return {"held": 0, "violated": 1, "inconclusive": 2}[r["verdict"]]
