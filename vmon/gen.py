"""Seeded generators aimed at the branch structure of the anchored mechanisms (no persim import)."""
import numpy as np

SCALES = [1e-6, 1e-3, 1e-2, 0.1, 1.0, 1.0, 1.0, 10.0, 1e2, 1e3, 1e6]


def diagram(rng, n, kind=None, scale=1.0, allow_diag=True):
    """(n,2) float array of birth/death pairs with death >= birth."""
    if n == 0:
        return np.zeros((0, 2))
    if kind is None:
        kind = rng.choice(["grid", "grid", "float", "diagheavy", "equal", "neartie", "cluster", "dyadic", "h0", "decimal", "negint"])
    if kind == "grid":
        g = int(rng.integers(2, 7))
        b = rng.integers(0, g, size=n).astype(float)
        lo = 0 if allow_diag else 1
        d = b + rng.integers(lo, g + 1, size=n)
    elif kind == "dyadic":
        b = rng.integers(0, 16, size=n) / 4.0
        lo = 0 if allow_diag else 1
        d = b + rng.integers(lo, 17, size=n) / 4.0
    elif kind == "float":
        b = rng.random(n) * 2 - 0.5
        d = b + rng.random(n) * 1.5 + (0 if allow_diag else 1e-3)
    elif kind == "diagheavy":
        b = rng.random(n)
        d = b + rng.random(n) * rng.choice([0.0, 1e-6, 0.01, 0.3], size=n) + (0 if allow_diag else 1e-9)
    elif kind == "equal":
        b0 = float(rng.integers(0, 3)); d0 = b0 + float(rng.integers(1, 4))
        b = np.full(n, b0); d = np.full(n, d0)
    elif kind == "neartie":
        base_b = float(rng.integers(0, 3)); base_d = base_b + float(rng.integers(1, 4))
        ulps = rng.integers(-2, 3, size=(n, 2))
        b = np.full(n, base_b); d = np.full(n, base_d)
        for i in range(n):
            for _ in range(abs(int(ulps[i, 0]))):
                b[i] = np.nextafter(b[i], np.inf if ulps[i, 0] > 0 else -np.inf)
            for _ in range(abs(int(ulps[i, 1]))):
                d[i] = np.nextafter(d[i], np.inf if ulps[i, 1] > 0 else -np.inf)
    elif kind == "negint":
        # a negated integer filtration (superlevel sets of an 8-bit image): values in [-255, 0], deaths often exactly -1 or 0 -
        # the values that file formats and other tools use as markers for "never dies"
        b = -rng.integers(2, 256, n).astype(float)
        d = np.minimum(b + rng.integers(0 if allow_diag else 1, 256, n), 0.0)
        d = np.where(rng.random(n) < 0.3, -1.0, d)
        d = np.where(rng.random(n) < 0.1, 0.0, d)
        d = np.maximum(d, b + (0 if allow_diag else 1))
    elif kind == "decimal":
        # filtration values from a threshold sweep in steps of 0.1 / 0.05 / 0.01: not representable in binary, so differences and
        # half-sums taken along different routes differ by an ulp
        q = float(rng.choice([0.1, 0.05, 0.01]))
        b = rng.integers(0, 30, n) * q
        d = b + rng.integers(0 if allow_diag else 1, 40, n) * q
    elif kind == "h0":
        # every class born at the same value (Rips H0: all births 0), lifetimes from noise to long-lived
        b = np.full(n, float(rng.choice([0.0, 0.0, 1.0, -2.0])))
        d = b + (rng.random(n) ** 3) * 3 + (0 if allow_diag else 1e-3)
        if rng.random() < 0.3:
            d = b + rng.integers(0 if allow_diag else 1, 9, n) / 2.0
    elif kind == "cluster":
        c = int(rng.integers(1, 4))
        cb = rng.random(c) * 3; cd = cb + rng.random(c) * 2 + 0.2
        idx = rng.integers(0, c, size=n)
        b = cb[idx] + rng.normal(0, 0.05, n)
        d = np.maximum(cd[idx] + rng.normal(0, 0.05, n), b + (0 if allow_diag else 1e-6))
    else:
        raise ValueError(kind)
    out = np.column_stack([b, d]).astype(float) * scale
    return out


def pick_scale(rng):
    return float(rng.choice(SCALES))


def sizes_pair(rng, maxtotal):
    """sizes (m,n) emphasising the small special shapes the statement names"""
    r = rng.random()
    if r < 0.08:
        return [(0, 0), (0, 1), (1, 0), (1, 1), (2, 2), (0, 3), (3, 0), (1, 2)][int(rng.integers(0, 8))]
    m = int(rng.integers(0, maxtotal + 1))
    n = int(rng.integers(0, maxtotal + 1 - m))
    return m, n


def insert_inf_rows(rng, dgm, n_inf):
    """insert n_inf rows with infinite death at random positions"""
    out = list(map(list, np.asarray(dgm, dtype=float)))
    for _ in range(n_inf):
        pos = int(rng.integers(0, len(out) + 1))
        out.insert(pos, [float(rng.random()), np.inf])
    return np.array(out, dtype=float).reshape(-1, 2)


def repaired(rng, dgm):
    """a diagram with the same multiset of births and the same multiset of deaths as dgm but a different (valid) pairing;
    returns dgm itself when no other valid pairing is found"""
    D = np.asarray(dgm, float).reshape(-1, 2)
    n = len(D)
    if n < 2:
        return D.copy()
    b = D[:, 0].copy()
    for _ in range(20):
        d = D[rng.permutation(n), 1]
        if np.all(d >= b) and not np.array_equal(d, D[:, 1]):
            return np.column_stack([b, d])[rng.permutation(n)]
    # deterministic fallback: sort births ascending and rotate the deaths among the points whose death clears every birth
    order = np.argsort(b)
    bs, ds = b[order], D[order, 1]
    ok = ds >= bs.max()
    if ok.sum() >= 2:
        idx = np.nonzero(ok)[0]
        ds2 = ds.copy()
        ds2[idx] = np.roll(ds[idx], 1)
        if not np.array_equal(ds2, ds):
            return np.column_stack([bs, ds2])[rng.permutation(n)]
    return D.copy()


def specialize(rng, dgm, scale=1.0):
    """plant values that code tends to special-case: 0, -0.0, exactly representable halves / powers of two, a birth equal to another
    point's death, an exact duplicate, a point on the diagonal; keeps death >= birth"""
    D = np.array(dgm, float).reshape(-1, 2).copy()
    n = len(D)
    if n == 0:
        return D
    for _ in range(int(rng.integers(1, 4))):
        i = int(rng.integers(0, n)); what = int(rng.integers(0, 9))
        if what == 8:
            D[i] = [-float(rng.integers(2, 9)) * scale, -1.0 * (scale if rng.random() < 0.5 else 1.0)]     # death exactly -1 (a common "essential" marker)
        elif what == 0:
            D[i, 0] = 0.0
        elif what == 1:
            D[i, 0] = -0.0
        elif what == 2:
            D[i] = [0.0, 0.0]
        elif what == 3 and n > 1:
            j = int(rng.integers(0, n)); D[i, 0] = D[j, 1]                   # touching: birth == someone's death
        elif what == 4 and n > 1:
            D[i] = D[int(rng.integers(0, n))]                                 # exact duplicate
        elif what == 5:
            D[i, 1] = D[i, 0]                                                 # on the diagonal
        elif what == 6:
            D[i] = np.array([1.0, 2.0]) * scale * float(2.0 ** rng.integers(-3, 4))
        else:
            D[i, 1] = D[i, 0] + scale * float(rng.choice([0.5, 1.0, 2.0 ** -20, 2.0 ** 10]))
    D[:, 1] = np.maximum(D[:, 1], D[:, 0])
    return D


def entangle(rng, A, B):
    """make two diagrams share structure: exact common points, B-births equal to A-deaths, equal persistence across the pair"""
    A = np.array(A, float).reshape(-1, 2); B = np.array(B, float).reshape(-1, 2).copy()
    if len(A) == 0 or len(B) == 0:
        return B
    for _ in range(int(rng.integers(1, 4))):
        i, j = int(rng.integers(0, len(A))), int(rng.integers(0, len(B)))
        what = int(rng.integers(0, 5))
        if what == 4:
            # concentric with an A point: same midpoint, shorter by a decimal amount on both sides
            w = (A[i, 1] - A[i, 0]) * float(rng.choice([0.1, 0.2, 0.25, 0.4]))
            B[j] = [A[i, 0] + w, A[i, 1] - w]
        elif what == 0:
            B[j] = A[i]                                                       # shared point
        elif what == 1:
            B[j, 0] = A[i, 1]; B[j, 1] = max(B[j, 1], B[j, 0])                # B born when an A point dies
        elif what == 2:
            B[j, 1] = B[j, 0] + (A[i, 1] - A[i, 0])                           # equal persistence
        else:
            B[j, 0] = A[i, 0]                                                 # equal birth
    B[:, 1] = np.maximum(B[:, 1], B[:, 0])                                    # stay inside the domain: death >= birth
    return B
