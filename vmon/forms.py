"""Equivalent concrete forms of one logical argument (memory layout, container, dtype, flag type).  No persim import.
A function whose result depends on which of these forms it was handed is representation-dependent."""
import numpy as np


def npflag(rng, b, p=0.35):
    """a boolean option as it arrives from a NumPy comparison / array / settings table: numpy.bool_ instead of the Python singleton"""
    if isinstance(b, bool) and rng.random() < p:
        return np.bool_(b)
    return b


LAYOUTS = ["fortran", "transposed-build", "strided", "readonly", "reversed-twice", "subclass-free copy"]


def relayout(rng, arr, which=None):
    """the same (n,2) float array in another memory layout; returns (array, name). Values, dtype and shape are identical."""
    a = np.asarray(arr)
    if a.ndim != 2 or a.size == 0:
        return a, "as-is"
    which = which or str(rng.choice(LAYOUTS))
    if which == "fortran":
        return np.asfortranarray(a), which
    if which == "transposed-build":                     # np.array([births, deaths]).T, np.vstack((b, d)).T, loadtxt(unpack=True).T
        return np.array([a[:, j] for j in range(a.shape[1])]).T, which
    if which == "strided":                              # a window of a larger table
        big = np.zeros((2 * a.shape[0] + 1, 2 * a.shape[1] + 1), dtype=a.dtype)
        big[1::2, 1::2] = a
        return big[1::2, 1::2], which
    if which == "readonly":
        c = a.copy(); c.setflags(write=False)
        return c, which
    if which == "reversed-twice":                       # negative strides
        return a[::-1].copy()[::-1], which
    return a.copy(), which
