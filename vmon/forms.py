"""Equivalent concrete forms of one logical argument (memory layout, container, dtype, flag type).  No persim import.
A function whose result depends on which of these forms it was handed is representation-dependent."""
import numpy as np


def npflag(rng, b, p=0.35):
    """a boolean option as it arrives from a NumPy comparison / array / settings table: numpy.bool_ instead of the Python singleton"""
    if isinstance(b, bool) and rng.random() < p:
        return np.bool_(b)
    return b


LAYOUTS = ["fortran", "transposed-build", "strided", "readonly", "reversed-twice", "subclass-free copy"]


def relayout(rng, arr, which=None):
    """the same (n,2) float array in another memory layout; returns (array, name). Values, dtype and shape are identical."""
    a = np.asarray(arr)
    if a.ndim != 2 or a.size == 0:
        return a, "as-is"
    which = which or str(rng.choice(LAYOUTS))
    if which == "fortran":
        return np.asfortranarray(a), which
    if which == "transposed-build":                     # np.array([births, deaths]).T, np.vstack((b, d)).T, loadtxt(unpack=True).T
        return np.array([a[:, j] for j in range(a.shape[1])]).T, which
    if which == "strided":                              # a window of a larger table
        big = np.zeros((2 * a.shape[0] + 1, 2 * a.shape[1] + 1), dtype=a.dtype)
        big[1::2, 1::2] = a
        return big[1::2, 1::2], which
    if which == "readonly":
        c = a.copy(); c.setflags(write=False)
        return c, which
    if which == "reversed-twice":                       # negative strides
        return a[::-1].copy()[::-1], which
    return a.copy(), which


INT_DTYPES = [np.int8, np.uint8, np.int16, np.uint16, np.int32, np.uint32, np.int64, np.uint64]


def int_dtypes_for(arr):
    """integer dtypes that hold every value of the (integer-valued, finite) array exactly"""
    a = np.asarray(arr, float)
    if a.size == 0 or not np.all(np.isfinite(a)) or not np.all(a == np.round(a)):
        return []
    lo, hi = float(a.min()), float(a.max())
    out = []
    for dt in INT_DTYPES:
        ii = np.iinfo(dt)
        if ii.min <= lo and hi <= ii.max and hi < 2.0 ** 53:
            out.append(dt)
    return out


def as_int_dtype(rng, arr, narrow_bias=0.6):
    """the integer-valued array in one of the integer dtypes that can hold it (8-bit images give uint8 filtration values, label
    maps int16, ...); narrow types preferred with probability narrow_bias. returns (array, dtype name) or (None, None)"""
    cands = int_dtypes_for(arr)
    if not cands:
        return None, None
    narrow = [d for d in cands if np.dtype(d).itemsize <= 2]
    dt = narrow[int(rng.integers(0, len(narrow)))] if (narrow and rng.random() < narrow_bias) else cands[int(rng.integers(0, len(cands)))]
    return np.asarray(arr, float).astype(dt), np.dtype(dt).name


def near_limit_int_diagram(rng, n, dtypes=(np.int8, np.uint8, np.int16, np.uint16, np.int32), positive_length=True):
    """an (n,2) birth/death array in a narrow integer dtype with values spread over most of the dtype's range (an 8-bit image gives
    uint8 filtration values up to 255, signed data int8 / int16 values of both signs): differences and sums of such values do not
    fit the dtype itself.  returns (integer array, float64 array of the same values, dtype name)"""
    dt = dtypes[int(rng.integers(0, len(dtypes)))]
    ii = np.iinfo(dt)
    lo, hi = int(ii.min * 0.95), int(ii.max * 0.95)
    b = rng.integers(lo, hi, size=n)
    d = np.array([int(rng.integers(x + (1 if positive_length else 0), hi + 1)) for x in b])
    if n >= 2:                                   # make sure the extremes are present: one long bar, one short bar high up
        b[0], d[0] = lo, hi
        b[1], d[1] = hi - max(1, (hi - lo) // 50), hi
    arr = np.column_stack([b, d])
    return arr.astype(dt), arr.astype(float), np.dtype(dt).name


def update_in_place(rng, arr, scale=None):
    """modify a float (n,2) birth/death array IN PLACE (same object, same shape), keeping death >= birth: what a caller does who
    reuses a buffer, caps deaths, rescales or perturbs a diagram between two calls.  returns a short description"""
    n = len(arr)
    if n == 0:
        return "empty"
    sc = float(scale) if scale else max(float(np.max(np.abs(arr))), 1e-300)
    how = int(rng.integers(0, 5))
    if how == 0:
        i = int(rng.integers(0, n)); arr[i, 1] += float(rng.uniform(0.3, 3.0)) * sc
        return "one death moved"
    if how == 1:
        arr *= 2.0
        return "everything doubled"
    if how == 2:
        arr[:, 1] = np.minimum(arr[:, 1], arr[:, 0] + float(rng.uniform(0.05, 0.5)) * sc)
        arr[0, 1] += 0.25 * sc
        return "deaths capped"
    if how == 3:
        arr += float(rng.uniform(0.5, 2.0)) * sc
        arr[int(rng.integers(0, n)), 1] += 0.5 * sc
        return "translated and one death moved"
    arr[:] = arr[::-1].copy(); arr[0, 1] += 0.75 * sc
    return "rows reversed and one death moved"



def with_extra_columns(rng, arr):
    """the documented Mx(>=2) form of bottleneck / wasserstein / the matching plots: birth, death and further columns that are to be
    ignored (homology dimension, multiplicity, ...)"""
    a = np.asarray(arr, float).reshape(-1, 2)
    k = int(rng.integers(1, 3))
    extra = np.column_stack([rng.integers(0, 3, len(a)).astype(float) if rng.random() < 0.6 else rng.normal(0, 50, len(a)) for _ in range(k)]) \
        if len(a) else np.zeros((0, k))
    if len(a) and rng.random() < 0.3:
        # the ignored columns may hold anything: a death/birth ratio that is inf for births at 0, a log-persistence that is -inf on
        # the diagonal, nan as a "missing" marker
        extra = extra.astype(float)
        extra[rng.integers(0, len(a), int(rng.integers(1, 3))), int(rng.integers(0, k))] = float(rng.choice([np.inf, -np.inf, np.nan]))
    return np.column_stack([a, extra])


def as_rows(rng, arr, dtype=None):
    """a diagram as a Python container of rows: list of 1-D arrays (what `list(dgm)` or a filtering comprehension gives), tuple of
    tuples, list of lists; optionally with the rows in another dtype. returns (container, name)"""
    a = np.asarray(arr) if dtype is None else np.asarray(arr).astype(dtype)
    how = str(rng.choice(["list-of-row-arrays", "tuple-of-tuples", "list-of-lists", "list-of-row-arrays"]))
    if how == "list-of-row-arrays":
        return list(a), how
    if how == "tuple-of-tuples":
        return tuple(tuple(r) for r in a.tolist()), how
    return a.tolist(), how


def scalar_form(rng, x):
    """a numeric parameter in another numeric type: an integral value as int / numpy integer, any value as numpy floating scalar"""
    x = float(x)
    opts = [np.float64(x)]
    if x == int(x) and abs(x) < 2 ** 53:
        opts += [int(x), np.int64(int(x))]
        if abs(x) < 2 ** 20:
            # (a 32-bit NumPy integer only where small multiples of it still fit 32 bits: `8 * np.int32(969014641)` wraps by NumPy's
            #  own scalar rules - the caller's choice of a too narrow type, not the library's arithmetic)
            opts.append(np.int32(int(x)))
    return opts[int(rng.integers(0, len(opts)))]
