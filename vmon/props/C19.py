"""C19 — the public API is pure, repeatable and representation-independent (histories x inputs x programs)."""
import contextlib
import io
import warnings

import numpy as np

from .. import gen
from .. import forms as vforms
from ..oracles import mgh as OM
from ..util import arr_snapshot, digest

ID = "C19"
CASES = {"quick": 500, "thorough": 8000}
MIN_NONTRIVIAL = {"quick": 300, "thorough": 5000}
REQUIRED = ["no argument is modified by the call", "same call => same result, whatever ran in between",
            "list / int array / float array forms give the same result", "mGH lower bound repeatable; upper bound repeatable under a fixed seed"]
RULE = ("random programs of 8-40 calls drawn from every public entry point (distances with and without matchings, heat, sliced, mGH, "
        "entropy, kernels, weights, PersistenceImager fit/transform/fit_transform/plot_diagram/plot_image, deprecated PersImage, both "
        "landscape classes with operators and norms, vectorize/snap_pl/lc_approx/average_approx/death_vector, PersistenceLandscaper, "
        "plot_diagrams, matching plots, landscape plots) over a small shared pool of arguments, so the same array object is passed to "
        "many functions; 30% of the calls repeat an earlier call verbatim; int-valued diagrams are passed as nested lists, int arrays "
        "and float arrays at random, float64 arrays also Fortran-ordered, as transposed builds, as strided windows of a larger table and read-only; default-constructed estimators are tuned by item assignment on their parameter dicts while other default-constructed ones are in use. Per call: byte-level snapshot (dtype, shape, bytes; deep for lists) of every argument before and "
        "after, canonical digest of the result. non-trivial = program with >=10 calls, >=5 distinct entry points and an argument shared "
        "by >=3 calls; distinct = digest of the program")
ASSUMPTIONS = ["stateful estimators are created fresh per occurrence (their histories are C18's business)",
               "a TypeError/AttributeError/ValueError/IndexError raised for a form the function does not accept (e.g. nested lists for "
               "sliced_wasserstein) is recorded as 'form not accepted' and skipped, as the statement allows",
               "results are compared by value (numbers canonicalised to float, arrays to nested lists); plots by their artists' data"]
TECHNIQUE = "runtime monitoring: call-history recorder with byte-level argument snapshots and result digests, checked offline for purity / repeatability / form independence"

ENTRY = {}
LAYOUT_FORMS = ["fortran", "transposed-build", "strided", "readonly"]


def entry(name, kinds):
    def deco(f):
        ENTRY[name] = (f, kinds)
        return f
    return deco


def setup(ctx):
    global P, plt, GHm
    import importlib
    import matplotlib.pyplot as plt_
    import persim as P_
    P, plt = P_, plt_
    GHm = importlib.import_module("persim.gromov_hausdorff")
    warnings.simplefilter("ignore")


def reload_persim():
    """re-execute every persim module (deepest first) so that module-level state is what a fresh import gives"""
    global P, GHm
    import importlib
    import sys
    names = sorted((n for n in sys.modules if n == "persim" or n.startswith("persim.")), key=lambda n: -n.count("."))
    for n in names:
        m = sys.modules.get(n)
        if m is not None and getattr(m, "__spec__", None) is not None:
            importlib.reload(m)
    import persim as P_
    P = P_
    GHm = importlib.import_module("persim.gromov_hausdorff")


def canon(x):
    """canonical by-value form of a result"""
    import persim
    from persim.landscapes import PersLandscapeApprox, PersLandscapeExact
    if isinstance(x, PersLandscapeExact):
        return ["PLE", x.hom_deg, canon(x.critical_pairs)]
    if isinstance(x, PersLandscapeApprox):
        v = np.asarray(x.values)
        return ["PLA", x.hom_deg, float(x.start), float(x.stop), int(x.num_steps), v.tolist() if v.dtype.kind in "US" else canon(v)]
    if isinstance(x, np.ndarray):
        if x.dtype == object:
            return [canon(v) for v in x.tolist()]
        if x.dtype.kind in "US":
            return x.tolist()
        return np.asarray(x, float).tolist()
    if isinstance(x, (list, tuple)):
        return [canon(v) for v in x]
    if isinstance(x, (bool, np.bool_)):
        return bool(x)
    if isinstance(x, (int, float, np.integer, np.floating)):
        return float(x)
    if x is None or isinstance(x, str):
        return x
    if isinstance(x, dict):
        return {str(k): canon(v) for k, v in x.items()}
    return type(x).__name__


def axes_summary(ax):
    out = []
    for c in ax.collections:
        try:
            out.append(["coll", np.asarray(c.get_offsets(), float).round(6).tolist()])
        except Exception:
            out.append(["coll", type(c).__name__])
    for ln in ax.lines:
        out.append(["line", np.asarray(ln.get_xdata(), float).round(6).tolist(), np.asarray(ln.get_ydata(), float).round(6).tolist()])
    for im in ax.images:
        out.append(["image", np.asarray(im.get_array(), float).round(9).tolist()])
    return out


@contextlib.contextmanager
def fresh_axes():
    fig, ax = plt.subplots()
    try:
        yield ax
    finally:
        plt.close(fig)


# ---- entry points: f(args) -> result ; kinds: tuple of pool kinds for the arguments ------------------------------------------------
@entry("bottleneck", ("dgm", "dgm"))
def _(a, b): return P.bottleneck(a, b)
@entry("bottleneck(matching)", ("dgm", "dgm"))
def _(a, b): return P.bottleneck(a, b, matching=True)[0]      # matchings depend on the hash seed only, not on history - value judged
@entry("wasserstein", ("dgm", "dgm"))
def _(a, b): return P.wasserstein(a, b)
@entry("wasserstein(matching)", ("dgm", "dgm"))
def _(a, b): return P.wasserstein(a, b, matching=True)
@entry("heat", ("dgmfin", "dgmfin", "sigma"))
def _(a, b, s): return P.heat(a, b, s)
@entry("sliced_wasserstein", ("dgmfin", "dgmfin", "M"))
def _(a, b, M): return P.sliced_wasserstein(a, b, M)
@entry("persistent_entropy", ("dgmpos",))
def _(a):
    from persim.persistent_entropy import persistent_entropy
    return persistent_entropy(a)
@entry("persistent_entropy(infinite bars)", ("dgm", "dgm"))
def _(a, b):
    from persim.persistent_entropy import persistent_entropy
    return [persistent_entropy(a), persistent_entropy([a, b], keep_inf=True, val_inf=50.0), persistent_entropy(b, keep_inf=False, normalize=True)]
@entry("landscapes(infinite bar)", ("dgm",))
def _(a):
    from persim.landscapes import PersLandscapeApprox as A, PersLandscapeExact as E
    with contextlib.redirect_stdout(io.StringIO()):
        return [E(dgms=[a], hom_deg=0), A(dgms=[a], hom_deg=0, num_steps=25)]
@entry("persistent_entropy(list)", ("dgmpos", "dgmpos"))
def _(a, b):
    from persim.persistent_entropy import persistent_entropy
    return persistent_entropy([a, b], normalize=True)
@entry("gaussian kernel", ("vec", "vec", "mu", "cov"))
def _(x, y, mu, cov):
    from persim import images_kernels as K
    return K.gaussian(x, y, mu=mu, sigma=cov)
@entry("bvn_cdf", ("vec", "vec"))
def _(x, y):
    from persim import images_kernels as K
    return K.bvn_cdf(x, y, 0.1, -0.2, 1.0, 2.0, 0.7)
@entry("sbvn_cdf+norm_cdf+uniform", ("vec", "vec", "mu"))
def _(x, y, mu):
    from persim import images_kernels as K
    return [K.sbvn_cdf(x, y, 0.0, 0.5, 2.0, 0.5), K.norm_cdf(x), K.uniform(x, y, mu=mu, width=1.5, height=0.7)]
@entry("weights", ("vec", "vec"))
def _(b, p):
    from persim import images_weights as W
    return [W.persistence(b, np.abs(p), n=2.0), W.linear_ramp(b, p, low=0.0, high=2.0, start=0.1, end=1.0)]
@entry("PersistenceImager.transform", ("dgmfin", "imgcfg"))
def _(a, cfg): return P.PersistenceImager(**cfg).transform(a, skew=True)
@entry("PersistenceImager.transform(collection)", ("dgmfin", "dgmfin", "imgcfg"))
def _(a, b, cfg): return P.PersistenceImager(**cfg).transform([a, b], skew=True)
@entry("PersistenceImager.fit+transform", ("dgmspread", "dgmfin", "imgcfg"))
def _(a, b, cfg):
    im = P.PersistenceImager(**cfg); im.fit([a], skew=True)
    return [im.birth_range, im.pers_range, im.resolution, im.transform(b, skew=True)]
@entry("PersistenceImager.fit_transform", ("dgmspread", "dgmspread", "imgcfg"))
def _(a, b, cfg): return P.PersistenceImager(**cfg).fit_transform([a, b], skew=True)
@entry("PersistenceImager.transform(skew=False)", ("dgmfin", "imgcfg"))
def _(a, cfg): return P.PersistenceImager(**cfg).transform(a, skew=False)
@entry("PersistenceImager.plot_diagram", ("dgmspread", "imgcfg"))
def _(a, cfg):
    with fresh_axes() as ax:
        P.PersistenceImager(**cfg).plot_diagram(a, skew=True, ax=ax)
        return axes_summary(ax)
@entry("PersistenceImager.plot_image", ("dgmfin", "imgcfg"))
def _(a, cfg):
    im = P.PersistenceImager(**cfg)
    img = im.transform(a)
    with fresh_axes() as ax:
        im.plot_image(img, ax=ax)
        return axes_summary(ax)
@entry("PersImage.transform", ("dgmfin",))
def _(a):
    with contextlib.redirect_stdout(io.StringIO()):
        return P.PersImage(pixels=(5, 5), spread=0.5, verbose=False).transform(a)
@entry("PersLandscapeExact", ("dgmpos", "dgmpos"))
def _(a, b):
    from persim.landscapes import PersLandscapeExact as E
    L1, L2 = E(dgms=[a], hom_deg=0), E(dgms=[a, b], hom_deg=1)
    S = L1 + L2 if False else (L1 - E(dgms=[b], hom_deg=0))
    return [L1, L2, S, 2 * L1, L1 / 3, -L2, S.p_norm(p=2), S.sup_norm(), L1[0]]
@entry("PersLandscapeApprox", ("dgmpos", "dgmpos"))
def _(a, b):
    from persim.landscapes import PersLandscapeApprox as A
    with contextlib.redirect_stdout(io.StringIO()):
        L1 = A(dgms=[a], hom_deg=0, start=-1.0, stop=12.0, num_steps=40); L2 = A(dgms=[b], hom_deg=0, start=-1.0, stop=12.0, num_steps=40)
    if np.asarray(L1.values).dtype.kind in "US" or np.asarray(L2.values).dtype.kind in "US":
        return [L1, L2]
    return [L1, L2, L1 + L2, L1 - L2, 0.5 * L1, L2 / 4, -L1, (L1 - L2).p_norm(p=3), (L1 - L2).sup_norm(), L1.values_to_pairs()]
@entry("landscape tools", ("dgmpos", "dgmpos"))
def _(a, b):
    from persim.landscapes import PersLandscapeApprox as A, PersLandscapeExact as E
    from persim.landscapes.tools import vectorize, snap_pl, lc_approx, average_approx, death_vector
    with contextlib.redirect_stdout(io.StringIO()):
        L1 = A(dgms=[a], hom_deg=0, num_steps=30); L2 = A(dgms=[b], hom_deg=0, num_steps=20)
    if np.asarray(L1.values).dtype.kind in "US" or np.asarray(L2.values).dtype.kind in "US":
        return [death_vector([a]), vectorize(E(dgms=[a], hom_deg=0), num_steps=25)]
    return [vectorize(E(dgms=[a], hom_deg=0), num_steps=25), snap_pl([L1, L2]), lc_approx([L1, L2], [2, -1]), average_approx([L1, L2]),
            death_vector([a]), death_vector([b])]
@entry("PersistenceLandscaper", ("dgmpos", "dgmpos"))
def _(a, b):
    with contextlib.redirect_stdout(io.StringIO()):
        T = P.PersistenceLandscaper(hom_deg=1, num_steps=15, flatten=True)
        return [T.fit_transform([a, b]), T.start, T.stop, T.transform([b, a])]
@entry("shared PersistenceLandscaper.transform", ("shared", "dgmpos", "dgmpos"))
def _(shared, a, b):
    # one long-lived, never fitted transformer with default grid limits, used for whatever data comes along: its answer for
    # given data must not depend on what it transformed before
    with contextlib.redirect_stdout(io.StringIO()):
        T = shared["landscaper"]
        return [T.transform([a, b]), T.get_params()]
@entry("shared PersistenceImager.transform", ("shared", "dgmfin"))
def _(shared, a):
    I = shared["imager"]
    return [I.transform(a, skew=True), I.birth_range, I.pers_range, I.resolution]
@entry("default PersistenceImager.transform", ("dgmfin",))
def _(a):
    # an imager that relies on every documented default: its answer depends on its argument only
    I = P.PersistenceImager()
    return [I.transform(a, skew=True), canon(I.weight_params), canon(I.kernel_params), I.pixel_size, I.birth_range, I.pers_range]
@entry("tuned default PersistenceImager.transform", ("dgmfin", "sigma"))
def _(a, s):
    # a default imager tuned after construction the way interactive users do it: by item assignment on its parameter dicts
    I = P.PersistenceImager()
    I.kernel_params["sigma"] = s
    I.weight_params["n"] = 2.0
    I.pixel_size = 0.5
    J = P.PersistenceImager(pixel_size=0.5)
    J.kernel_params["sigma"] = [[s, 0.0], [0.0, 2 * s]]
    return [I.transform(a, skew=True), J.transform(a, skew=True)]
@entry("default PersistenceLandscaper / PersImage", ("dgmpos",))
def _(a):
    with contextlib.redirect_stdout(io.StringIO()):
        T = P.PersistenceLandscaper()
        out = T.fit_transform([a])
        T.num_steps = 7
        pi = P.PersImage(verbose=False)
        r = pi.transform(a)
        pi.pixels = (3, 3)
        return [out, r, canon(P.PersistenceLandscaper().get_params())]
@entry("plot_diagrams", ("dgmspread", "dgm"))
def _(a, b):
    with fresh_axes() as ax:
        P.plot_diagrams([a, b], ax=ax, lifetime=False)
        s1 = axes_summary(ax)
    with fresh_axes() as ax:
        P.plot_diagrams(a, ax=ax, lifetime=True, legend=False)
        return [s1, axes_summary(ax)]
@entry("plot_diagrams(labels, options as containers)", ("dgmspread", "dgm", "dgmspread", "labels", "xyrange"))
def _(a, b, c, labels, xy):
    # every container argument, not only the diagrams: a list of labels (shorter, equal or longer than the list of diagrams), a list
    # of positions, a list of axis limits
    only = [0, 2]
    with fresh_axes() as ax:
        P.plot_diagrams([a, b, c], ax=ax, labels=labels, xy_range=xy)
        s1 = axes_summary(ax)
    with fresh_axes() as ax:
        P.plot_diagrams([a, b, c], ax=ax, plot_only=only, labels=labels if len(labels) >= 3 else None)
        return [s1, axes_summary(ax), only]
@entry("matching plots(labels)", ("dgmspread", "dgmspread", "labels2"))
def _(a, b, labels):
    d, m = P.bottleneck(a, b, matching=True)
    with fresh_axes() as ax:
        P.bottleneck_matching(a, b, m, labels=labels, ax=ax)
        s1 = axes_summary(ax)
    with fresh_axes() as ax:
        P.wasserstein_matching(a, b, P.wasserstein(a, b, matching=True)[1], labels=labels, ax=ax)
        return [s1, axes_summary(ax)]
class ArgumentModified(Exception):
    pass


def unchanged(before, obj, what):
    if arr_snapshot(obj) != before:
        raise ArgumentModified(what)


@entry("matching plots", ("dgmspread", "dgmspread"))
def _(a, b):
    d, m = P.wasserstein(a, b, matching=True)
    m0 = arr_snapshot(m)
    with fresh_axes() as ax:
        P.wasserstein_matching(a, b, m, ax=ax)
        s1 = axes_summary(ax)
    unchanged(m0, m, "matching array passed to wasserstein_matching")
    with fresh_axes() as ax:
        P.bottleneck_matching(a, b, m, ax=ax)       # any (k,3) matching array is drawable
        unchanged(m0, m, "matching array passed to bottleneck_matching")
        return [s1, axes_summary(ax)]
@entry("matching plots(diagrams with essential classes)", ("dgmmid", "dgmmid"))
def _(a, b):
    # the matching indexes the finite points only; the plotters receive the full diagrams (essential classes at any row)
    out = []
    for dist, plot in ((P.wasserstein, P.wasserstein_matching), (P.bottleneck, P.bottleneck_matching)):
        d, m = dist(a, b, matching=True)
        m0 = arr_snapshot(m)
        for _ in range(2):              # the same figure is often drawn twice (once to look at it, once to save it)
            with fresh_axes() as ax:
                try:
                    plot(a, b, m, ax=ax)
                    out.append(axes_summary(ax))
                except (IndexError, ValueError) as e:
                    out.append("rejected:" + type(e).__name__)
            unchanged(m0, m, "matching array passed to " + plot.__name__)
    return out
@entry("landscape plots", ("dgmpos",))
def _(a):
    from persim.landscapes import PersLandscapeExact as E, PersLandscapeApprox as A, plot_landscape_simple, plot_landscape
    L = E(dgms=[a], hom_deg=0)
    with fresh_axes() as ax:
        plot_landscape_simple(L, ax=ax)
        s1 = axes_summary(ax)
    fig = plt.figure()
    try:
        plot_landscape(L, num_steps=20, ax=fig.add_subplot(projection="3d"))
    finally:
        plt.close(fig)
    return [s1, L]
@entry("gromov_hausdorff", ("graph", "graph", "seed"))
def _(A, B, seed):
    np.random.seed(seed)
    return P.gromov_hausdorff(A, B)
@entry("gromov_hausdorff(collection)", ("graph", "graph", "graph", "seed"))
def _(A, B, C, seed):
    np.random.seed(seed)
    return P.gromov_hausdorff([A, B, C])


# ---- pool --------------------------------------------------------------------------------------------------------------------------
REQUIRED_NOTES = ["entry:" + n for n in ENTRY]      # every public entry point must have been exercised, else inconclusive


def make_pool(rng):
    pool = {"dgm": [], "graph": [], "vec": [], "mu": [], "cov": [], "sigma": [0.4, 1.0, 0.05], "M": [1, 10, 50], "seed": [1, 7, 12345], "imgcfg": []}
    n = int(rng.integers(6, 11))
    for i in range(n):
        m = int(rng.integers(2, 9))
        if i == 0:
            m = int(rng.integers(33, 61))      # one diagram of a few dozen points per pool (size-gated paths, caches for "big" inputs)
        integer = rng.random() < 0.45
        if integer:
            b = rng.integers(0, 6, m).astype(float); d = b + rng.integers(1, 7, m)
        else:
            b = rng.random(m) * 3; d = b + rng.random(m) * 3 + 0.05
        arr = np.column_stack([b, d])
        arr[0] = [arr[:, 0].min() - 1.0 if not integer else arr[:, 0].min() - 1, arr[:, 1].max() + 1]       # positive extent in both coordinates
        has_inf = rng.random() < 0.2
        item = {"float": arr.copy(), "integer": integer, "inf": has_inf}
        if integer:
            item["int"] = arr.astype(np.int64)
            item["list"] = arr.astype(int).tolist()
            item["float32"] = arr.astype(np.float32)         # exact for integer values: the same diagram as ripser emits it
        elif rng.random() < 0.35:
            item["float"] = arr.astype(np.float32)           # natively single precision
            arr = item["float"]
        if has_inf:
            item["float_inf"] = np.vstack([arr, [[float(arr[0, 0]), np.inf]]])
        pool["dgm"].append(item)
    for _ in range(2):
        # 8-bit data: values over most of the range of int8 / uint8 (sums and differences do not fit the dtype itself)
        ia, fa, dn = vforms.near_limit_int_diagram(rng, int(rng.integers(3, 7)), dtypes=(np.int8, np.uint8))
        pool["dgm"].append({"float": fa, "integer": True, "inf": False, "int": ia, "list": fa.astype(int).tolist(), "float32": fa.astype(np.float32)})
    for gi in range(4):
        G, _ = OM.random_connected(rng, 7, 2)
        if gi >= 2:      # irregular graphs on which the sampled upper bound really depends on the random draws
            G = OM.random_tree(rng, int(rng.integers(10, 17)))
        form = int(rng.integers(0, 3))
        import scipy.sparse as sps
        pool["graph"].append([np.triu(G, 1).tolist(), G, sps.csr_matrix(G)][form])
    for _ in range(3):
        pool["vec"].append(rng.normal(0, 2, 6))
        pool["mu"].append(rng.normal(0, 1, 2))
    pool["cov"] += [np.array([[1.0, 0.0], [0.0, 1.0]]), np.array([[2.0, 0.9], [0.9, 1.0]]), np.array([[1.0, -0.95], [-0.95, 1.0]])]
    pool["imgcfg"] += [{"pixel_size": 0.5, "birth_range": (0.0, 3.0), "pers_range": (0.0, 3.0)},
                       {"pixel_size": 1.0, "birth_range": (-1.0, 4.0), "pers_range": (0.0, 5.0), "kernel_params": {"sigma": np.array([[0.5, 0.2], [0.2, 0.4]])}},
                       {"pixel_size": 0.7, "weight": "linear_ramp", "weight_params": {"low": 0.0, "high": 1.0, "start": 0.0, "end": 2.0},
                        "kernel": "uniform", "kernel_params": {"width": 1.0, "height": 2.0}}]
    pool["labels"] = [["components", "loops"], ["a", "b", "c"], ["only"], ["w", "x", "y", "z"]]
    pool["labels2"] = [["first", "second"], ["dgm1", "dgm2"]]
    pool["xyrange"] = [None, [-3.0, 20.0, -3.0, 20.0], [-1.0, 9.0, 0.0, 14.0]]
    pool["shared"] = [make_shared()]
    return pool


def make_shared():
    return {"landscaper": P.PersistenceLandscaper(hom_deg=0, num_steps=12),
            "imager": P.PersistenceImager(pixel_size=0.5, birth_range=(-1.0, 4.0), pers_range=(0.0, 4.0), kernel_params={"sigma": 0.3})}


def pick(rng, pool, kind):
    """returns (argument object, value-level key, pool id, form)"""
    if kind == "dgmmid":
        # a diagram whose essential class (infinite death) is NOT the last row: first or somewhere in the middle (GUDHI-style output,
        # concatenated diagrams)
        i = int(rng.integers(0, len(pool["dgm"])))
        it = pool["dgm"][i]
        if "float_infmid" not in it:
            base = np.asarray(it["float"], float)
            pos = int(rng.integers(0, max(1, len(base) - 1)))
            it["float_infmid"] = np.insert(base, pos, [float(base[0, 0]), np.inf], axis=0)
        return it["float_infmid"], ("dgm", i, "infmid"), ("dgm", i, "float_infmid"), "float"
    if kind in ("dgm", "dgmfin", "dgmpos", "dgmspread"):
        i = int(rng.integers(0, len(pool["dgm"])))
        it = pool["dgm"][i]
        forms = ["float"]
        if it["integer"]:
            forms += ["int", "list", "float32"]
        if it["float"].dtype == np.float64:
            forms += LAYOUT_FORMS[:2] if rng.random() < 0.5 else LAYOUT_FORMS[2:]    # the same float64 values in another memory layout
        form = str(rng.choice(forms))
        if kind == "dgm" and it["inf"] and rng.random() < 0.5:
            if it["float"].dtype == np.float64 and rng.random() < 0.4:
                lf = str(rng.choice(LAYOUT_FORMS))
                if "inf:" + lf not in it:
                    it["inf:" + lf] = vforms.relayout(rng, it["float_inf"], lf)[0]
                return it["inf:" + lf], ("dgm", i, "inf"), ("dgm", i, "float_inf:" + lf), lf
            return it["float_inf"], ("dgm", i, "inf"), ("dgm", i, "float_inf"), "float"
        if form in LAYOUT_FORMS and form not in it:
            it[form] = vforms.relayout(rng, it["float"], form)[0]
        # single precision is a different computation (results agree only to ~1e-7), so it is its own value key: purity and
        # repeatability are judged for it, equality with the double-precision forms is not demanded
        return it[form], (("dgm", i, "f32") if form == "float32" else ("dgm", i)), ("dgm", i, form), form
    i = int(rng.integers(0, len(pool[kind])))
    return pool[kind][i], (kind, i), (kind, i), "-"


def run_case(ctx, k, rng):
    pool = make_pool(rng)
    names = sorted(ENTRY)
    n_calls = int(rng.integers(8, 41))
    ctx.begin(k, "program", None)
    program = []          # (name, pool ids)
    results = {}          # (name, value keys) -> digest, form
    uses = {}
    log = []
    first_seen = []
    plt.close("all")
    for t in range(n_calls):
        if program and rng.random() < 0.3:
            name, picks = program[int(rng.integers(0, len(program)))]
            if rng.random() < 0.5:      # repeat the same call in another accepted form of the same values
                picks = [pick_same(rng, pool, p) for p in picks]
            elif rng.random() < 0.6:    # a parameter sweep: the same data, another value of the scalar parameters (sigma, M, seed)
                picks = [pick(rng, pool, kd) if kd in ("sigma", "M", "seed") else p for p, kd in zip(picks, ENTRY[name][1])]
                ctx.note("repeats with another scalar parameter")
        else:
            name = names[int(rng.integers(0, len(names)))]
            picks = [pick(rng, pool, kd) for kd in ENTRY[name][1]]
        f = ENTRY[name][0]
        args = [p[0] for p in picks]
        if rng.random() < 0.3:
            # short-lived equal-valued copies instead of the pool objects: their ids are recycled from call to call, which is
            # exactly what a cache keyed by object identity gets wrong
            import copy as _copy
            args = [_copy.deepcopy(a) if isinstance(a, (np.ndarray, list)) else a for a in args]
            ctx.note("calls with short-lived copies")
        vkey = (name, tuple(p[1] for p in picks))
        if any(isinstance(a, np.ndarray) and a.dtype == np.float32 for a in args) or (
                name == "sliced_wasserstein" and any(isinstance(a, np.ndarray) and a.dtype.kind in "iu" and a.dtype.itemsize <= 2 for a in args)):
            # (sliced_wasserstein multiplies by float32 direction vectors: 8- and 16-bit integer input is promoted to single precision
            # there, 32- and 64-bit input to double - a 1e-7 effect that C15 judges against its oracle at 1e-6*scale)
            # mixed single/double arithmetic promotes differently for int arrays and python ints (1e-7 effects): calls that
            # involve a single-precision array are compared only with calls using exactly the same forms
            vkey = (name, tuple(p[2] for p in picks))
        forms = tuple(p[3] for p in picks)
        before = [arr_snapshot(a) for a in args]
        ctx.ran()
        ctx.note("entry:" + name)
        try:
            with warnings.catch_warnings():
                warnings.simplefilter("ignore")
                res = f(*args)
        except ArgumentModified as e:
            ctx.set_payload({"entry": name, "args": args, "modified": str(e)})
            ctx.check("no argument is modified by the call", False, entry=name, forms=forms, modified=str(e))
            program.append((name, picks))
            continue
        except (TypeError, AttributeError, ValueError, IndexError, KeyError) as e:
            if any(fm in ("list", "int", "float32") for fm in forms):
                ctx.note("form not accepted:" + name)
                program.append((name, picks))
                # purity still applies to a rejected call
                after = [arr_snapshot(a) for a in args]
                ctx.check("no argument is modified by the call", before == after, entry=name, forms=forms, rejected=True)
                continue
            ctx.set_payload({"entry": name, "args": args})
            ctx.exception("call returns", e, entry=name, forms=forms)
            continue
        after = [arr_snapshot(a) for a in args]
        changed = [i for i, (x, y) in enumerate(zip(before, after)) if x != y]
        if changed:
            ctx.set_payload({"entry": name, "args_after": args, "changed_positions": changed, "forms": forms})
        ctx.check("no argument is modified by the call", not changed, entry=name, forms=forms, changed=changed)
        dg = digest(canon(res))
        program.append((name, picks))
        log.append([name, [list(map(str, p[2])) for p in picks]])
        for p in picks:
            uses[p[2][:2]] = uses.get(p[2][:2], 0) + 1
        if vkey not in results:
            first_seen.append((name, picks, vkey))
        if vkey in results:
            prev_dg, prev_forms, prev_t = results[vkey]
            same_forms = prev_forms == forms
            if name.startswith("gromov"):
                ctx.check("mGH lower bound repeatable; upper bound repeatable under a fixed seed", dg == prev_dg, entry=name, first_call=prev_t, now=t)
            elif same_forms:
                if dg != prev_dg:
                    ctx.set_payload({"entry": name, "args": args, "first_call": prev_t, "now": t, "program": log})
                ctx.check("same call => same result, whatever ran in between", dg == prev_dg, entry=name, first_call=prev_t, now=t)
            else:
                if dg != prev_dg:
                    ctx.set_payload({"entry": name, "args": args, "forms": [prev_forms, forms]})
                ctx.check("list / int array / float array forms give the same result", dg == prev_dg, entry=name, forms=[prev_forms, forms])
        else:
            results[vkey] = (dg, forms, t)
    # replay phase: every distinct call once more, in reverse order, on fresh equal-valued copies - history-dependent state
    # (caches keyed by identity, leaked globals) shows up as a different result for the same values
    import copy as _copy
    if rng.random() < 0.5:
        # half of the programs replay against a library whose module-level state is as after a fresh import (every persim module
        # re-executed): a result that was shaped by something an earlier call left behind in the process - a memo keyed by part of
        # the arguments, a leaked global - differs from the one a new process would give for the same values
        reload_persim()
        ctx.note("replays after re-importing the library")
    fresh_shared = make_shared()        # long-lived estimators are replaced by brand-new ones: their answers must not depend on their past
    for name, picks, vkey in list(reversed(first_seen))[:25]:
        args = [_copy.deepcopy(p[0]) if isinstance(p[0], (np.ndarray, list)) else (fresh_shared if p[1][0] == "shared" else p[0]) for p in picks]
        try:
            ctx.ran()
            with warnings.catch_warnings():
                warnings.simplefilter("ignore")
                dg = digest(canon(ENTRY[name][0](*args)))
        except Exception as e:
            ctx.exception("call returns", e, entry=name, phase="replay")
            continue
        clause = ("mGH lower bound repeatable; upper bound repeatable under a fixed seed" if name.startswith("gromov")
                  else "same call => same result, whatever ran in between")
        if dg != results[vkey][0]:
            ctx.set_payload({"entry": name, "args": args, "first_call": results[vkey][2], "program": log})
        ctx.check(clause, dg == results[vkey][0], entry=name, first_call=results[vkey][2], now="replay phase")
    plt.close("all")
    if len(program) >= 10 and len({n for n, _ in program}) >= 5 and uses and max(uses.values()) >= 3:
        ctx.mark_nontrivial(log, sample={"calls": log[:8], "n_calls": len(program)})


def pick_same(rng, pool, p):
    pid = p[2]
    if pid[0] == "dgm" and len(pid) == 3 and pid[2] in ("float", "int", "list", "float32") + tuple(LAYOUT_FORMS):
        it = pool["dgm"][pid[1]]
        forms = ["float"] + (["int", "list", "float32"] if it["integer"] else [])
        if pid[2] == "float32":
            return p
        forms.remove("float32") if "float32" in forms else None
        if it["float"].dtype == np.float64:
            forms += LAYOUT_FORMS
        form = str(rng.choice(forms))
        if form in LAYOUT_FORMS and form not in it:
            it[form] = vforms.relayout(rng, it["float"], form)[0]
        return it[form], p[1], ("dgm", pid[1], form), form
    return p
