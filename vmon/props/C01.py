"""C01 — bottleneck distance is the true min-max matching cost (inputs x hash seeds)."""
import math
import warnings

import numpy as np

from .. import gen
from .. import forms as vforms
from ..oracles import matching as OM
from ..util import scale_of

ID = "C01"
CASES = {"quick": 5000, "thorough": 30000}
REPLICAS = {"quick": 4, "thorough": 8}          # every case is replayed under this many different PYTHONHASHSEEDs
CROSS_CONFIG_EQUAL = True
MIN_NONTRIVIAL = {"quick": 800, "thorough": 5000}
REQUIRED = ["value==exhaustive min-max", "value==threshold-search oracle", "value is a table entry",
            "inf-death rows ignored with warning", "list/int forms agree", "cross-config-equal"]
RULE = ("pairs of diagrams, sizes (0,0),(0,n),(1,1),(2,2)... up to M+N<=11 (exhaustive oracle over all partial matchings) "
        "and up to 60+60 quick / 150+150 thorough (scipy Hopcroft-Karp threshold oracle); classes: tiny integer grids "
        "(ties, repeated and diagonal points), dyadic, floats, diagonal-heavy, all-equal, one-ulp near-ties, clusters, re-paired copies (same births and deaths, different pairing); "
        "scales 1e-6..1e6; one case in 401 has 260-460 generic points per diagram or a total of 255..257 / 511..513 / 1025 points with the distance decided by the last point of one diagram; each case replayed under several hash seeds. non-trivial = both diagrams non-empty, M+N>=3 and "
        "(the optimum is strictly below the all-diagonal cost, i.e. a cross pairing is forced, or the optimum value "
        "occurs more than once among the candidate costs); distinct = digest of the input pair")
ASSUMPTIONS = ["oracle cost rule written from the statement in scalar python: L-inf between points, (d-b)/2 to the diagonal",
               "exhaustive oracle enumerates every partial matching (branch and bound) for M+N<=11; larger inputs use "
               "scipy.sparse.csgraph.maximum_bipartite_matching as perfect-matching test; both oracles are cross-checked "
               "against each other on every small case (disagreement = harness error => inconclusive)",
               "values compared at 1e-9*scale (they are in fact bit-identical: same scalar operations)"]
REQUIRED_NOTES = ["large-cases"]
TECHNIQUE = "runtime monitoring: postcondition monitor on persim.bottleneck with exhaustive / threshold-search oracles, replicated across PYTHONHASHSEED configurations"


def setup(ctx):
    global bottleneck
    import persim
    bottleneck = persim.bottleneck


def gen_pair(rng, tier, force_small=None):
    big = 60 if tier == "quick" else 150
    r = rng.random()
    small = force_small if force_small is not None else (r < 0.72)
    if small:
        m, n = gen.sizes_pair(rng, 11)
    else:
        top = big if rng.random() < 0.25 else big // 3
        m, n = int(rng.integers(0, top + 1)), int(rng.integers(0, top + 1))
    scale = gen.pick_scale(rng)
    kind = None if rng.random() < 0.5 else str(rng.choice(["grid", "grid", "dyadic", "equal", "neartie", "float", "h0", "decimal", "decimal", "negint"]))
    A = gen.diagram(rng, m, kind, scale)
    B = gen.diagram(rng, n, kind, scale)
    if kind == "h0" and m and n:
        B[:, 1] += A[0, 0] - B[0, 0]; B[:, 0] = A[0, 0]          # the same birth value in both diagrams (two Rips H0 diagrams)
    if m and n and rng.random() < 0.15:       # jittered / partial copy: near-zero distances and forced diagonal pairs
        take = rng.integers(0, m, size=n)
        B = A[take] + (rng.integers(-1, 2, size=(n, 2)) * scale * float(rng.choice([0, 1, 0.25])))
        B[:, 1] = np.maximum(B[:, 1], B[:, 0])
    if rng.random() < 0.15:
        A = gen.specialize(rng, A, scale); B = gen.specialize(rng, B, scale)
    if rng.random() < (0.15 if kind != "decimal" else 0.6):
        B = gen.entangle(rng, A, B)
    if m >= 2 and rng.random() < 0.12:        # same births and same deaths, paired differently (fast paths comparing columns)
        B = gen.repaired(rng, A)
        if rng.random() < 0.3 and len(B) > 2:
            B = B[:-1]
    return A, B, scale, small


def call(ctx, *a, **kw):
    ctx.ran()
    return bottleneck(*a, **kw)


def gen_large(rng):
    """a few hundred generic points per diagram: tens of thousands of distinct candidate distances"""
    scale = gen.pick_scale(rng)
    m, n = int(rng.integers(260, 461)), int(rng.integers(260, 461))
    edge = rng.random() < 0.5
    if edge:
        # M+N at and next to a block size (255..257, 511..513, 1023..1025) and the distance decided by the LAST point of one diagram:
        # a long bar far from everything else, whose diagonal cost sits in the last row / column of the table
        tot = int(rng.choice([255, 256, 257, 511, 512, 513, 513, 513, 1025]))
        m = int(rng.integers(tot // 3, 2 * tot // 3)); n = tot - m
    A = gen.diagram(rng, m, str(rng.choice(["float", "cluster", "diagheavy"])), scale)
    B = gen.diagram(rng, n, str(rng.choice(["float", "cluster", "diagheavy"])), scale)
    if rng.random() < 0.3 and not edge:
        B = A[rng.permutation(m)] + rng.normal(0, 1e-3 * scale, A.shape); B[:, 1] = np.maximum(B[:, 1], B[:, 0])
    if edge:
        far = np.array([50.0, 50.0 + float(rng.uniform(3.0, 9.0))]) * scale
        if rng.random() < 0.5:
            B[-1] = far
        else:
            A[-1] = far
    return A, B, scale


def run_case(ctx, k, rng):
    if k % 401 == 7:
        A, B, scale = gen_large(rng); small = False
        ctx.note("large-cases")
        ctx.begin(k, "large", {"dgm1": A, "dgm2": B})
    else:
        A, B, scale, small = gen_pair(rng, ctx.tier)
        ctx.begin(k, "small" if small else "medium", {"dgm1": A, "dgm2": B})
    S, T = OM.finite_rows(A), OM.finite_rows(B)
    tol = 1e-9 * scale_of(A, B)
    try:
        with ctx.fp_sensor():
            v = call(ctx, A, B)
    except Exception as e:
        ctx.exception("returns a value", e)
        return
    ok = isinstance(v, (float, np.floating)) and not isinstance(v, np.ndarray) and math.isfinite(v)
    if not ctx.check("returns a value", ok, got=repr(v)):
        return
    v = float(v)
    ctx.result(v)
    thr = OM.bottleneck_threshold(S, T)
    ctx.check("value==threshold-search oracle", abs(v - thr) <= tol, got=v, ref=thr)
    if len(S) + len(T) <= 11:
        ex, pairs = OM.exhaustive(S, T, "bn")
        if abs(ex - thr) > tol:
            raise AssertionError("oracles disagree: exhaustive %r threshold %r" % (ex, thr))
        ctx.check("value==exhaustive min-max", abs(v - ex) <= tol, got=v, ref=ex, matching=pairs)
    costs = OM.finite_costs(S, T, "bn")
    ctx.check("value is a table entry", v in costs, got=v)
    ctx.check("value>=0", v >= 0, got=v)
    # non-triviality
    if S and T and len(S) + len(T) >= 3:
        alld = OM.all_diagonal(S, T, "bn")
        D = OM.augmented(S, T, "bn")
        mult = sum(1 for row in D for c in row if c == thr)
        if thr < alld or mult > 1:
            ctx.mark_nontrivial(A, B)
            ctx.note("nontrivial:cross-forced" if thr < alld else "nontrivial:tie-at-optimum")

    if A.size and B.size and scale_of(A, B) > 1e-100 and rng.random() < 0.12:
        # history: the same array objects, updated in place between two calls, must be answered for their current values
        PA, PB = A.copy(), B.copy()
        try:
            first = call(ctx, PA, PB)
            how = vforms.update_in_place(rng, PA if rng.random() < 0.7 else PB, scale_of(A, B))
            v_now, v_fresh = call(ctx, PA, PB), OM.bottleneck_threshold(OM.finite_rows(PA.copy()), OM.finite_rows(PB.copy()))
            ctx.check("after an in-place update the value is that of the current contents", abs(float(v_now) - v_fresh) <= 1e-9 * scale_of(PA, PB),
                      got=v_now, oracle_on_current_values=v_fresh, before_update=first, update=how)
        except Exception as e:
            ctx.exception("after an in-place update the value is that of the current contents", e)
    sub = int(rng.integers(0, 3))
    if sub == 0:   # infinite deaths: dropped with a warning, value unchanged
        which = int(rng.integers(1, 4))
        A2 = gen.insert_inf_rows(rng, A, int(rng.integers(1, 3))) if which & 1 else A
        B2 = gen.insert_inf_rows(rng, B, int(rng.integers(1, 3))) if which & 2 else B
        ctx.set_payload({"dgm1": A2, "dgm2": B2})
        try:
            with warnings.catch_warnings(record=True) as wl:
                warnings.simplefilter("always")
                v2 = call(ctx, A2, B2)
            msgs = [str(w.message) for w in wl]
            need = (["dgm1"] if which & 1 else []) + (["dgm2"] if which & 2 else [])
            warned = all(any(nm in m and "non-finite" in m for m in msgs) for nm in need)
            ctx.check("inf-death rows ignored with warning", float(v2) == v and warned, got=v2, base=v, warnings=msgs)
        except Exception as e:
            ctx.exception("inf-death rows ignored with warning", e)
    elif sub == 1:  # representation forms
        try:
            vl = call(ctx, A.tolist(), B.tolist())
            ok = float(vl) == v
            info = {"list": vl}
            if A.size and B.size and np.all(A == np.round(A)) and np.all(B == np.round(B)) and scale_of(A, B) < 1e9:
                (ia, da), (ib, db) = vforms.as_int_dtype(rng, A), vforms.as_int_dtype(rng, B)
                vi = call(ctx, ia, ib)
                ok = ok and float(vi) == v
                info["int"] = vi; info["int_dtypes"] = [da, db]
                ctx.note("int-form-cases")
            if A.size and B.size and rng.random() < 0.5:
                vx = call(ctx, vforms.with_extra_columns(rng, A), vforms.with_extra_columns(rng, B) if rng.random() < 0.7 else B)
                ok = ok and float(vx) == v
                info["extra_columns"] = vx
            if A.size and B.size:
                (fa, na), (fb, nb) = vforms.relayout(rng, A), vforms.relayout(rng, B)
                vf = call(ctx, fa, fb)
                ok = ok and float(vf) == v
                info["layout"] = [na, nb, vf]
                ctx.note("layout-form-cases")
            ctx.check("list/int forms agree", ok, base=v, **info)
            if rng.random() < 0.3:
                # narrow integer dtypes with values over most of their range (uint8 filtration values of an 8-bit image, ...)
                ia, fa_, da = vforms.near_limit_int_diagram(rng, int(rng.integers(1, 7)))
                ib, fb_, db = vforms.near_limit_int_diagram(rng, int(rng.integers(1, 7)), dtypes=(np.dtype(da).type,))
                ctx.set_payload({"dgm1": ia, "dgm2": ib, "dtype": da})
                vi, vf = call(ctx, ia, ib), call(ctx, fa_, fb_)
                thr2 = OM.bottleneck_threshold(OM.finite_rows(fa_), OM.finite_rows(fb_))
                ctx.check("narrow integer dtype near its limits == float64 of the same values", float(vi) == float(vf) == thr2, int_form=vi,
                          float_form=vf, oracle=thr2, dtype=da)
        except Exception as e:
            ctx.exception("list/int forms agree", e)
    else:           # swapping the arguments / reordering rows cannot change a min over all matchings
        try:
            pa, pb = rng.permutation(len(A)), rng.permutation(len(B))
            v3 = call(ctx, B[pb] if len(B) else B, A[pa] if len(A) else A)
            ctx.check("swap+reorder gives same value", abs(float(v3) - v) <= tol, got=v3, base=v)
        except Exception as e:
            ctx.exception("swap+reorder gives same value", e)
