"""C07 — bottleneck and Wasserstein obey the metric and invariance laws at any size."""
import math

import numpy as np

from .. import gen
from ..oracles import matching as OM
from ..util import scale_of

ID = "C07"
CASES = {"quick": 2400, "thorough": 7200}
MIN_NONTRIVIAL = {"quick": 400, "thorough": 1200}
LAWS = ["reorder=>0", "symmetric", "non-negative", "triangle", "diagonal points ignored", "diagonal translation",
        "linear scaling", "vs empty diagram"]
REQUIRED = ["bn: " + l for l in LAWS] + ["ws: " + l for l in LAWS] + ["bottleneck<=wasserstein", "bn: ==oracle", "ws: ==oracle"]
RULE = ("triples (X,Y,Z) of diagrams with 10..60 (quick) / 10..300 (thorough) points each (plus a few tiny ones): independent "
        "random, Y a jittered copy of X (near-zero distances), clustered, integer grids with massive ties, re-paired copies (same births and same deaths, different pairing); scales 1e-3..1e3; "
        "two of every three cases are micro cases (1-3 points on a decimal lattice, the second diagram nested concentrically in the first; oracle, symmetry, scaling, translation, bn<=ws only); one (full) case in 97 has 300-450 generic points per diagram (symmetry, reordering, diagonal points and the oracle only); one hash seed per worker. Every law is a separate monitor clause; the C01/C02 scipy oracles run on the same "
        "values. non-trivial = all three diagrams have >=10 points and are pairwise different; distinct = triple digest")
ASSUMPTIONS = ["tolerances: bottleneck 1e-9*scale (exact arithmetic up to the transformation's own rounding), Wasserstein "
               "1e-7*scale*(M+N+1) (sklearn sqrt-eps cross distances; W(X,X) is 0 only up to that)",
               "translations have magnitude <= 10*scale and their own rounding eps*(scale+|s|) is inside the tolerance"]
REQUIRED_NOTES = ["large-cases"]
TECHNIQUE = "runtime monitoring: metamorphic-relation monitor (one clause per law) over related calls, plus scipy oracles on the same values"


def setup(ctx):
    global bottleneck, wasserstein
    import persim
    bottleneck, wasserstein = persim.bottleneck, persim.wasserstein


def gen_triple(rng, tier):
    if rng.random() < 0.1:
        sizes = [int(rng.integers(0, 8)) for _ in range(3)]
    else:
        if tier == "quick":
            top = 60
        else:
            r = rng.random()
            top = 100 if r < 0.7 else (200 if r < 0.95 else 300)
        sizes = [int(rng.integers(10, top + 1)) for _ in range(3)]
    scale = float(rng.choice([1e-3, 0.1, 1, 1, 1, 10, 1e3]))
    style = str(rng.choice(["indep", "jitter", "cluster", "grid", "mixed", "repaired", "decimal", "h0"]))
    if style == "grid":
        X, Y, Z = (gen.diagram(rng, n, "grid", scale) for n in sizes)
    elif style == "h0":
        # three Rips-H0-like diagrams: every class born at one common value, same number of classes (equal-size point clouds), one
        # or two long-lived classes among many short ones
        n0 = max(2, sizes[0] // int(rng.choice([1, 4, 10])))
        b0 = float(rng.choice([0.0, 0.0, 1.0])) * scale
        def h0(n):
            dd = (rng.random(n) ** 3) * 2 * scale
            dd[: int(rng.integers(0, 3))] *= float(rng.uniform(3, 10))
            return np.column_stack([np.full(n, b0), b0 + dd])[rng.permutation(n)]
        X, Y, Z = h0(n0), h0(n0), h0(n0 if rng.random() < 0.7 else n0 + 1)
    elif style == "decimal":
        sizes = [max(1, s // 6) for s in sizes]
        X, Y, Z = (gen.diagram(rng, n, "decimal", scale) for n in sizes)
        Y = gen.entangle(rng, X, Y); Z = gen.entangle(rng, Y, Z)
    elif style == "cluster":
        X, Y, Z = (gen.diagram(rng, n, "cluster", scale) for n in sizes)
    elif style == "repaired":
        X = gen.diagram(rng, sizes[0], str(rng.choice(["grid", "float", "dyadic"])), scale)
        Y = gen.repaired(rng, X)
        Z = gen.repaired(rng, Y) if rng.random() < 0.5 else gen.diagram(rng, sizes[2], None, scale)
    elif style == "jitter":
        X = gen.diagram(rng, sizes[0], "float", scale)
        def jit(P, n, amp):
            if len(P) == 0:
                return gen.diagram(rng, n, "float", scale)
            Q = P[rng.integers(0, len(P), n)] + rng.normal(0, amp * scale, (n, 2))
            Q[:, 1] = np.maximum(Q[:, 1], Q[:, 0])
            return Q
        Y = jit(X, sizes[1], float(rng.choice([1e-9, 1e-4, 1e-2])))
        Z = jit(Y, sizes[2], float(rng.choice([1e-9, 1e-4, 1e-2])))
    else:
        X, Y, Z = (gen.diagram(rng, n, None, scale) for n in sizes)
    if rng.random() < 0.2:
        X, Y, Z = gen.specialize(rng, X, scale), gen.specialize(rng, Y, scale), gen.specialize(rng, Z, scale)
    if rng.random() < 0.2:
        Y = gen.entangle(rng, X, Y); Z = gen.entangle(rng, Y, Z)
    return X, Y, Z, scale, style


def large_case(ctx, k, rng):
    """300-450 generic points per diagram (more than 2**16 distinct candidate distances): the laws that relate few calls"""
    scale = float(rng.choice([1e-3, 1, 1, 1e3]))
    X = gen.diagram(rng, int(rng.integers(300, 451)), "float", scale)
    Y = gen.diagram(rng, int(rng.integers(300, 451)), str(rng.choice(["float", "cluster"])), scale)
    ctx.begin(k, "large", {"X": X, "Y": Y})
    ctx.note("large-cases")
    sc = scale_of(X, Y)
    for kind, fn in (("bn", bottleneck), ("ws", wasserstein)):
        tol = 1e-9 * sc if kind == "bn" else 1e-7 * sc * (len(X) + len(Y) + 1)
        try:
            ctx.ran(4)
            dxy, dyx = float(fn(X, Y)), float(fn(Y, X))
            ctx.check(kind + ": symmetric", abs(dxy - dyx) <= tol, dxy=dxy, dyx=dyx)
            dpp = float(fn(X, X[rng.permutation(len(X))]))
            ctx.check(kind + ": reorder=>0", abs(dpp) <= (0 if kind == "bn" else tol), got=dpp, n=len(X))
            nb = int(rng.integers(1, 60))
            tb = rng.uniform(-sc, sc, nb)
            Yd = np.vstack([Y, np.column_stack([tb, tb])])[rng.permutation(len(Y) + nb)]
            dd = float(fn(X, Yd))
            ctx.check(kind + ": diagonal points ignored", abs(dd - dxy) <= tol, got=dd, base=dxy, added=nb)
            S, T = OM.finite_rows(X), OM.finite_rows(Y)
            ref = OM.bottleneck_threshold(S, T) if kind == "bn" else OM.wasserstein_lsa(S, T)
            ctx.check(kind + ": ==oracle", abs(dxy - ref) <= tol, got=dxy, ref=ref)
        except Exception as e:
            ctx.exception(kind + ": returns", e)
    ctx.mark_nontrivial(X, Y)


def micro_case(ctx, k, rng):
    """1-3 points per diagram on a decimal lattice (threshold sweeps in steps of 0.1 / 0.05 / 0.01), the second diagram concentric
    with / nested in the first: the regime where one pair decides everything and every bound or shortcut computed along a second
    floating-point route is an ulp away from the table entry.  Only the cheap laws; two of every three cases are of this kind."""
    q = float(rng.choice([0.1, 0.05, 0.01, 0.2]))
    n = int(rng.integers(1, 4))
    b = rng.integers(0, 12, n) * q; d = b + rng.integers(2, 14, n) * q
    if rng.random() < 0.25:
        # H0-like micro pair: common birth, equal sizes, one long bar against short ones
        n = int(rng.integers(2, 5))
        b = np.zeros(n); d = rng.integers(1, 20, n) * q
        d[0] = float(rng.integers(40, 120)) * q
    X = np.column_stack([b, d])
    Y = X.copy()
    if np.all(b == 0) and n >= 2:
        Y = np.column_stack([np.zeros(n), rng.integers(1, 20, n) * q])
    for i in range(n):
        w = int(rng.integers(0, 4)) * q * float(rng.choice([0.5, 1.0]))
        if Y[i, 1] - Y[i, 0] > 2 * w:
            Y[i] = [Y[i, 0] + w, Y[i, 1] - w]
    if rng.random() < 0.3:
        Y = Y[: max(1, n - 1)]
    if rng.random() < 0.5:
        X, Y = Y, X
    scale = float(rng.choice([1.0, 1.0, 10.0, 1e-3]))
    X, Y = X * scale, Y * scale
    ctx.begin(k, "micro-decimal", {"X": X, "Y": Y})
    sc = scale_of(X, Y)
    vals = {}
    S, T = OM.finite_rows(X), OM.finite_rows(Y)
    for kind, fn in (("bn", bottleneck), ("ws", wasserstein)):
        tol = 1e-9 * sc if kind == "bn" else 1e-7 * sc * (len(X) + len(Y) + 1)
        try:
            ctx.ran(4)
            dxy = float(fn(X, Y)); vals[kind] = dxy
            ref = OM.bottleneck_threshold(S, T) if kind == "bn" else OM.wasserstein_lsa(S, T)
            ctx.check(kind + ": ==oracle", abs(dxy - ref) <= tol, got=dxy, ref=ref)
            ctx.check(kind + ": symmetric", abs(float(fn(Y, X)) - dxy) <= tol, dxy=dxy)
            c = float(rng.choice([10.0, 2.0, 0.5]))
            ctx.check(kind + ": linear scaling", abs(float(fn(X * c, Y * c)) - c * dxy) <= c * tol + 1e-9 * c * sc, expected=c * dxy, c=c)
            s = float(rng.choice([3.0, -1.0, 0.7])) * sc
            ctx.check(kind + ": diagonal translation", abs(float(fn(X + s, Y + s)) - dxy) <= tol + 1e-9 * (sc + abs(s)), base=dxy, shift=s)
        except Exception as e:
            ctx.exception(kind + ": returns", e)
    if len(vals) == 2:
        ctx.check("bottleneck<=wasserstein", vals["bn"] <= vals["ws"] + 1e-7 * sc * (len(X) + len(Y) + 1), bn=vals["bn"], ws=vals["ws"])


def run_case(ctx, k, rng):
    if k % 3 != 0:
        return micro_case(ctx, k, rng)
    if (k // 3) % 97 == 13:
        return large_case(ctx, k, rng)
    X, Y, Z, scale, style = gen_triple(rng, ctx.tier)
    ctx.begin(k, style, {"X": X, "Y": Y, "Z": Z})
    sc = scale_of(X, Y, Z)
    if min(len(X), len(Y), len(Z)) >= 10 and not (np.array_equal(X, Y) or np.array_equal(Y, Z) or np.array_equal(X, Z)):
        ctx.mark_nontrivial(X, Y, Z, sample={"sizes": [len(X), len(Y), len(Z)], "style": style, "scale": scale,
                                             "X_head": X[:4], "Y_head": Y[:4], "Z_head": Z[:4]})
    vals = {}
    for kind, fn in (("bn", bottleneck), ("ws", wasserstein)):
        def tol(P, Q, extra=0.0):
            if kind == "bn":
                return 1e-9 * (sc + extra)
            return 1e-7 * (sc + extra) * (len(P) + len(Q) + 1)

        def d(P, Q):
            ctx.ran()
            return float(fn(P, Q))
        try:
            dxy, dyx, dyz, dxz = d(X, Y), d(Y, X), d(Y, Z), d(X, Z)
            vals[kind] = dxy
            ctx.check(kind + ": symmetric", abs(dxy - dyx) <= tol(X, Y), dxy=dxy, dyx=dyx)
            ctx.check(kind + ": non-negative", min(dxy, dyz, dxz) >= (0 if kind == "bn" else -tol(X, Y)), values=[dxy, dyz, dxz])
            ctx.check(kind + ": triangle", dxz <= dxy + dyz + tol(X, Z) + tol(X, Y) + tol(Y, Z), dxz=dxz, dxy=dxy, dyz=dyz)
            if len(X):
                dpp = d(X, X[rng.permutation(len(X))])
                ctx.check(kind + ": reorder=>0", abs(dpp) <= (0 if kind == "bn" else tol(X, X)), got=dpp)
                dself = d(X, X)                      # the very same object on both sides
                ctx.check(kind + ": the same array as both arguments => 0", abs(dself) <= (0 if kind == "bn" else tol(X, X)), got=dself)
            # diagonal points on either side
            na, nb = int(rng.integers(0, 6)), int(rng.integers(1, 6))
            ta, tb = rng.uniform(-sc, sc, na), rng.uniform(-sc, sc, nb)
            Xd = np.vstack([X, np.column_stack([ta, ta])])[rng.permutation(len(X) + na)]
            Yd = np.vstack([Y, np.column_stack([tb, tb])])[rng.permutation(len(Y) + nb)]
            dd = d(Xd, Yd)
            ctx.check(kind + ": diagonal points ignored", abs(dd - dxy) <= tol(Xd, Yd), got=dd, base=dxy)
            # translation along the diagonal
            s = float(rng.uniform(-10, 10)) * sc
            ds_ = d(X + s, Y + s)
            ctx.check(kind + ": diagonal translation", abs(ds_ - dxy) <= tol(X, Y, abs(s)), got=ds_, base=dxy, shift=s)
            # linear scaling
            c = float(rng.choice([1e-3, 0.5, 2.0, 3.0, 7.3, 1e3]))
            dc = d(X * c, Y * c)
            ctx.check(kind + ": linear scaling", abs(dc - c * dxy) <= c * tol(X, Y), got=dc, expected=c * dxy, c=c)
            # against the empty diagram
            pers = [float(q - p) for p, q in X]
            want = (max(pers) / 2 if pers else 0.0) if kind == "bn" else math.fsum(pers) / OM.SQRT2
            empty = [np.zeros((0, 2)), np.array([]), []][int(rng.integers(0, 3))]
            de1, de2 = d(X, empty), d(empty, X)
            t = 1e-9 * sc if kind == "bn" else 1e-12 * sc * (len(X) + 1)
            ctx.check(kind + ": vs empty diagram", abs(de1 - want) <= t and abs(de2 - want) <= t, got=[de1, de2], expected=want)
            if len(X):
                # the same with essential classes present (every Rips H0 diagram has one): they are dropped, the rest is as above
                import warnings as _w
                Xi = gen.insert_inf_rows(rng, X, int(rng.integers(1, 3)))
                with _w.catch_warnings():
                    _w.simplefilter("ignore")
                    di1, di2 = d(Xi, empty), d(empty, Xi)
                ctx.check(kind + ": vs empty diagram", abs(di1 - want) <= t and abs(di2 - want) <= t, got=[di1, di2], expected=want,
                          with_infinite_deaths=True)
            # oracle on the same value
            S, T = OM.finite_rows(X), OM.finite_rows(Y)
            ref = OM.bottleneck_threshold(S, T) if kind == "bn" else OM.wasserstein_lsa(S, T)
            ctx.check(kind + ": ==oracle", abs(dxy - ref) <= tol(X, Y), got=dxy, ref=ref)
        except Exception as e:
            ctx.exception(kind + ": returns", e)
    if len(vals) == 2:
        ctx.check("bottleneck<=wasserstein", vals["bn"] <= vals["ws"] + 1e-7 * sc * (len(X) + len(Y) + 1), bn=vals["bn"], ws=vals["ws"])
