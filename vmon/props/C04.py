"""C04 — persistence image pixels are weighted kernel mass over each pixel."""
import numpy as np

from .. import forms as vforms
from .. import imgcfg
from ..oracles import image as OI

ID = "C04"
CASES = {"quick": 640, "thorough": 250000}
MIN_NONTRIVIAL = {"quick": 120, "thorough": 18874}
KINDS = ["gaussian/isotropic", "gaussian/axis-aligned", "gaussian/correlated |r|<0.925", "gaussian/correlated |r|>=0.925", "uniform", "user kernel"]
REQUIRED = ["pixel == sum weight*mass [%s]" % k for k in KINDS] + ["image axes are (birth, persistence)", "image shape == resolution",
                                                                   "sibling configuration evaluated in the same process is also right"]
RULE = ("one case = one imager configuration (ranges that do / do not divide by the pixel size, resolution 1x1..12x9; kernel: scalar, "
        "isotropic, axis-aligned, correlated with r in +-{0.2,0.5,0.74,0.76,0.9,0.93,0.99}, uniform box, a user logistic kernel; "
        "variances 1e-4..1e2 in absolute and pixel units; weight: persistence n in {0.5,1,2,3}, linear_ramp, user callables incl. a "
        "signed one) and one diagram of 0-8 points inside / on pixel borders / on the region border / outside the region, given in "
        "birth-death (skew=True) or birth-persistence (skew=False) form, float or int; one case in 53 is of realistic size instead (2000-9000 pairs, 30..160 pixels per side, axis-factoring kernels, vectorised oracle); half of the cases go on to evaluate sibling configurations (same resolution and origin with another pixel size; same geometry with another kernel parameter) in the same process and then the original again. non-trivial = >=2 points, >=2x2 pixels and "
        "some pixel receiving mass >1e-6 from two different points; distinct = digest of (configuration, diagram)")
ASSUMPTIONS = ["pixel (i,j) = [b0+i*ps, b0+(i+1)*ps] x [p0+j*ps, p0+(j+1)*ps] from the public birth_range, pers_range, pixel_size",
               "mass by direct integration of the density: exact overlap (uniform), product of 1-D normal masses (axis-aligned), "
               "quad over the birth side of phi(x)*[conditional normal mass] (correlated, epsabs 1e-13); never bivariate-CDF inclusion-exclusion",
               "tolerance 1e-7*sum|w| (numerical-integration accuracy named by the statement)"]
REQUIRED_NOTES = ["large-cases", "narrow-int-cases", "rescaled-unit-cases", "parallel-collection-cases"]
TECHNIQUE = "runtime monitoring: postcondition monitor on PersistenceImager.transform with a direct-integration pixel-mass oracle"


def setup(ctx):
    global Imager
    import persim
    Imager = persim.PersistenceImager


def kernel_class(kd):
    if kd["kind"] == "uniform":
        return KINDS[4]
    if kd["kind"] == "logistic":
        return KINDS[5]
    cov = kd["cov"]
    if cov[0][1] != 0.0:
        r = cov[0][1] / (cov[0][0] * cov[1][1]) ** 0.5
        return KINDS[3] if abs(r) >= 0.925 else KINDS[2]
    return KINDS[0] if cov[0][0] == cov[1][1] else KINDS[1]


def large_case(ctx, k, rng):
    """thousands of pairs on a fine grid: whatever the implementation does differently at that size (blocks, tables, chunks) must
    still produce the weighted pixel masses"""
    geom, kkw, kdesc, wkw, wfun, bp = imgcfg.gen_large(rng)
    kcls = kernel_class(kdesc)
    ctx.begin(k, "large/" + kcls, {"ctor": {**geom, "kernel": kdesc, "weight": {a: (b if not callable(b) else b.__name__) for a, b in wkw.items()}},
                                   "n_pairs": len(bp), "first_pairs": bp[:5]})
    ctx.note("large-cases")
    try:
        ctx.ran(2)
        P = Imager(**geom, **kkw, **wkw)
        skew = bool(rng.integers(0, 2))
        dgm = np.column_stack([bp[:, 0], bp[:, 0] + bp[:, 1]]) if skew else bp
        if skew:
            bp = np.column_stack([dgm[:, 0], dgm[:, 1] - dgm[:, 0]])
        img = np.asarray(P.transform(dgm, skew=skew))
    except Exception as e:
        ctx.exception("transform returns", e)
        return
    nb, npx = (int(x) for x in P.resolution)
    if not ctx.check("image shape == resolution", img.shape == (nb, npx), shape=img.shape, resolution=[nb, npx]):
        return
    w = np.asarray(wfun(bp[:, 0], bp[:, 1]), float)
    g = {"b0": P.birth_range[0], "p0": P.pers_range[0], "ps": P.pixel_size, "nb": nb, "np": npx}
    want = OI.expected_image_separable(bp, w, kdesc, g)
    tol = 1e-7 * max(float(np.sum(np.abs(w))), 1e-300)
    err = np.abs(img - want)
    i, j = np.unravel_index(int(np.argmax(err)), err.shape)
    ctx.check("pixel == sum weight*mass [%s]" % kcls, bool(np.all(np.isfinite(img))) and float(err.max()) <= tol, worst=float(err.max()),
              tol=tol, pixel=[int(i), int(j)], got=float(img[i, j]), want=float(want[i, j]), n_pairs=len(bp), total_got=float(img.sum()),
              total_want=float(want.sum()))
    ctx.mark_nontrivial(geom, kdesc, len(bp), float(bp.sum()))


def narrow_int_case(ctx, k, rng):
    """diagrams in a narrow integer dtype with values over most of its range (8-bit / 16-bit filtration values): births and deaths
    fit the dtype, death - birth need not"""
    ia, fa, dn = vforms.near_limit_int_diagram(rng, int(rng.integers(1, 7)), dtypes=(np.int8, np.uint8, np.int16, np.uint16))
    lo, hi = float(fa.min()), float(fa.max())
    ps = (hi - lo) / float(rng.integers(4, 10))
    geom = {"birth_range": (lo, hi), "pers_range": (0.0, hi - lo), "pixel_size": ps}
    v = (ps * float(rng.choice([0.5, 1.0, 2.0]))) ** 2
    kdesc = {"kind": "gaussian", "cov": [[v, 0.0], [0.0, v]]}
    ctx.begin(k, "narrow-int/" + dn, {"ctor": {**geom, "sigma": v}, "diagram": ia, "dtype": dn})
    ctx.note("narrow-int-cases")
    try:
        ctx.ran(2)
        P = Imager(**geom, kernel_params={"sigma": v})
        img = np.asarray(P.transform(ia, skew=True))
        nb, npx = (int(x) for x in P.resolution)
        bp = np.column_stack([fa[:, 0], fa[:, 1] - fa[:, 0]])
        w = bp[:, 1].copy()
        want = OI.expected_image_separable(bp, w, kdesc, {"b0": P.birth_range[0], "p0": P.pers_range[0], "ps": P.pixel_size, "nb": nb, "np": npx})
        tol = 1e-7 * max(float(np.sum(np.abs(w))), 1e-300)
        ok = img.shape == want.shape and bool(np.all(np.isfinite(img))) and float(np.abs(img - want).max()) <= tol
        ctx.check("pixel == sum weight*mass [gaussian/isotropic]", ok, worst=float(np.abs(img - want).max()) if img.shape == want.shape else None,
                  tol=tol, dtype=dn, total_got=float(img.sum()), total_want=float(want.sum()))
    except Exception as e:
        ctx.exception("transform returns", e, dtype=dn)


def parallel_collection_case(ctx, k, rng):
    """a collection of diagrams of different sizes through transform(..., n_jobs=2 / 3) (threads: no process start-up): the image at
    position i must be the weighted kernel mass of diagram i"""
    import joblib
    geom = imgcfg.gen_geometry(rng)
    while True:
        kkw, kdesc = imgcfg.gen_kernel(rng, geom["pixel_size"], high_corr=False)
        if kdesc["kind"] != "gaussian" or kdesc["cov"][0][1] == 0.0:
            break
    kcls = kernel_class(kdesc)
    ctx.begin(k, "parallel-collection/" + kcls, None)
    ctx.note("parallel-collection-cases")
    try:
        P = Imager(**geom, **kkw)
        pub = {"birth_range": tuple(P.birth_range), "pers_range": tuple(P.pers_range), "pixel_size": P.pixel_size}
        sizes = rng.permutation([1, 2, 3, 5, 8, 13, 21])[: int(rng.integers(3, 7))]
        coll = [imgcfg.gen_points(rng, int(s), pub) for s in sizes]
        nj = int(rng.choice([2, 2, 3]))
        ctx.set_payload({"ctor": {**geom, "kernel": kdesc}, "sizes": [int(s) for s in sizes], "n_jobs": nj, "collection": coll})
        ctx.ran()
        with joblib.parallel_backend("threading"):
            imgs = P.transform(coll, skew=False, n_jobs=nj)
        nb, npx = (int(x) for x in P.resolution)
        g = {"b0": P.birth_range[0], "p0": P.pers_range[0], "ps": P.pixel_size, "nb": nb, "np": npx}
        worst, where = 0.0, None
        for i, (bp, img) in enumerate(zip(coll, imgs)):
            w = np.asarray(bp[:, 1], float)
            want = OI.expected_image_separable(bp, w, kdesc, g)
            e = float(np.abs(np.asarray(img) - want).max()) / max(float(np.sum(np.abs(w))), 1e-300)
            if e > worst:
                worst, where = e, i
        ctx.check("pixel == sum weight*mass [%s]" % kcls, len(imgs) == len(coll) and worst <= 1e-7, worst_relative=worst, position=where,
                  sizes=[int(s) for s in sizes], n_jobs=nj)
        ctx.mark_nontrivial(geom, kdesc, [c.tolist() for c in coll], nj)
    except Exception as e:
        ctx.exception("transform returns", e)


def run_case(ctx, k, rng):
    if k % 53 == 9:
        return large_case(ctx, k, rng)
    if k % 31 == 11:
        return parallel_collection_case(ctx, k, rng)
    if k % 29 == 3:
        return narrow_int_case(ctx, k, rng)
    geom = imgcfg.gen_geometry(rng)
    kkw, kdesc = imgcfg.gen_kernel(rng, geom["pixel_size"])
    wkw, wfun, nonneg = imgcfg.gen_weight(rng)
    kcls = kernel_class(kdesc)
    unit = 1.0
    if rng.random() < 0.12 and kdesc["kind"] in ("gaussian", "uniform"):
        # the same configuration expressed in another unit (nanometres given in metres, microseconds in seconds, ...): ranges, pixel
        # size and kernel scale together; images are equivariant, absolute tolerances inside the code are not
        unit = float(rng.choice([1e-9, 1e-6, 1e-3, 1e3, 1e6]))
        geom, kkw, kdesc = imgcfg.rescale(geom, kkw, kdesc, unit)
        ctx.note("rescaled-unit-cases")
    ctx.begin(k, kcls + ("" if unit == 1.0 else "/unit%g" % unit), None)
    try:
        ctx.ran()
        P = Imager(**geom, **kkw, **wkw)
    except Exception as e:
        ctx.set_payload({"geom": geom, "kernel": kdesc, "weight": {a: b for a, b in wkw.items() if a != "weight"}})
        ctx.exception("constructs", e)
        return
    pub = {"birth_range": tuple(P.birth_range), "pers_range": tuple(P.pers_range), "pixel_size": P.pixel_size,
           "resolution": tuple(int(x) for x in P.resolution)}
    n = int(rng.integers(0, 9))
    integer = rng.random() < 0.15
    bp = imgcfg.gen_points(rng, n, pub, integer)
    skew = bool(rng.integers(0, 2))
    dgm = bp.copy()
    if skew:
        dgm[:, 1] = dgm[:, 0] + dgm[:, 1]
        bp = np.column_stack([dgm[:, 0], dgm[:, 1] - dgm[:, 0]])     # what a caller means by (birth, death)
    arg, form = vforms.as_int_dtype(rng, dgm) if (integer and n) else (dgm, "float64")
    if not integer and n and rng.random() < 0.3:
        arg, form = vforms.relayout(rng, dgm)        # same values in another memory layout
    skew_arg = vforms.npflag(rng, skew)
    ctx.set_payload({"ctor": {**geom, "kernel": kdesc, "weight": {a: (b if not callable(b) else b.__name__) for a, b in wkw.items()}},
                     "public": pub, "diagram": np.asarray(arg), "given_as": form, "skew": skew})
    ctx.seen("diagram argument forms", form)
    if n == 0:
        return     # empty diagrams are C11's business
    try:
        ctx.ran()
        img = np.asarray(P.transform(arg, skew=skew_arg))
    except Exception as e:
        ctx.exception("transform returns", e)
        return
    nb, npx = pub["resolution"]
    if not ctx.check("image shape == resolution", img.shape == (nb, npx), shape=img.shape, resolution=[nb, npx]):
        return
    w = np.asarray(wfun(bp[:, 0], bp[:, 1]), float)
    g = {"b0": pub["birth_range"][0], "p0": pub["pers_range"][0], "ps": pub["pixel_size"], "nb": nb, "np": npx}
    want, per_point = OI.expected_image(bp, w, kdesc, g)
    tol = 1e-7 * max(float(np.sum(np.abs(w))), 1e-300)
    err = np.abs(img - want)
    i, j = np.unravel_index(int(np.argmax(err)), err.shape)
    ok = bool(np.all(np.isfinite(img))) and float(err.max()) <= tol
    ctx.check("pixel == sum weight*mass [%s]" % kcls, ok, worst=float(err.max()), tol=tol, pixel=[int(i), int(j)],
              got=float(img[i, j]), want=float(want[i, j]))
    # axes: the transposed expectation must NOT be what we got, whenever the two differ measurably
    if nb == npx and float(np.abs(want - want.T).max()) > 100 * tol:
        ctx.check("image axes are (birth, persistence)", float(np.abs(img - want.T).max()) > tol and ok, transposed_error=float(np.abs(img - want.T).max()))
    elif nb != npx:
        ctx.check("image axes are (birth, persistence)", img.shape == (nb, npx) and ok, shape=img.shape)
    # ---- siblings: configurations that differ from this one in exactly one respect, evaluated in the same process -----
    # (state that leaks between calls or objects - caches keyed by part of the configuration - shows up here)
    if ok and rng.random() < 0.5:
        import copy
        b0, p0 = geom["birth_range"][0], geom["pers_range"][0]
        sibs = []
        fac = float(rng.choice([2.0, 0.5, 1.5]))
        g2 = {"birth_range": (b0, b0 + (geom["birth_range"][1] - b0) * fac), "pers_range": (p0, p0 + (geom["pers_range"][1] - p0) * fac),
              "pixel_size": geom["pixel_size"] * fac}
        sibs.append(("same resolution and origin, other pixel size", g2, kkw, kdesc))
        kk2, kd2 = copy.deepcopy(kkw), copy.deepcopy(kdesc)
        if kd2["kind"] == "gaussian" and "kernel_params" in kk2:
            sg = kk2["kernel_params"]["sigma"]
            kk2["kernel_params"]["sigma"] = (sg * 4) if isinstance(sg, (int, float)) else (np.asarray(sg, float) * 4)
            kd2["cov"] = (np.asarray(kd2["cov"], float) * 4).tolist()
            sibs.append(("same geometry, variance x4", geom, kk2, kd2))
        elif kd2["kind"] == "uniform":
            kd2["width"] *= 2
            kk2["kernel_params"] = {"width": kd2["width"], "height": kd2["height"]}
            sibs.append(("same geometry, box width x2", geom, kk2, kd2))
        for what, gg, kk, kd in sibs:
            try:
                ctx.ran(2)
                Q = Imager(**gg, **kk, **wkw)
                qi = np.asarray(Q.transform(arg, skew=skew))
                qpub = {"b0": Q.birth_range[0], "p0": Q.pers_range[0], "ps": Q.pixel_size, "nb": int(Q.resolution[0]), "np": int(Q.resolution[1])}
                qwant, _ = OI.expected_image(bp, w, kd, qpub)
                okq = qi.shape == qwant.shape and bool(np.all(np.isfinite(qi))) and float(np.abs(qi - qwant).max()) <= tol
                ctx.check("sibling configuration evaluated in the same process is also right", okq, sibling=what,
                          worst=float(np.abs(qi - qwant).max()) if qi.shape == qwant.shape else None, shape=qi.shape)
            except Exception as e:
                ctx.exception("sibling configuration evaluated in the same process is also right", e, sibling=what)
        again = np.asarray(P.transform(arg, skew=skew))
        ctx.check("original imager unaffected by its siblings", again.shape == img.shape and np.array_equal(again, img),
                  worst=float(np.abs(again - img).max()) if again.shape == img.shape else None)
    if n >= 2 and nb >= 2 and npx >= 2:
        cnt = sum((np.abs(w[t]) * pp > 1e-6).astype(int) for t, pp in enumerate(per_point))
        if np.max(cnt) >= 2:
            ctx.mark_nontrivial(geom, kdesc, arg, skew)
