"""C15 — sliced Wasserstein is the averaged 1-D transport cost and a pseudo-metric."""
import math

import numpy as np

from .. import gen
from .. import forms as vforms
from ..util import scale_of

ID = "C15"
CASES = {"quick": 4000, "thorough": 250000}
MIN_NONTRIVIAL = {"quick": 1200, "thorough": 33990}
REQUIRED = ["value==averaged 1-D transport cost", "symmetric", "reorder=>0", "triangle", "diagonal points ignored",
            "diagonal translation (also negative)", "linear scaling", "SW <= 2*W1",
            "integer arrays == float arrays of the same values"]
RULE = ("pairs/triples of diagrams with 0-40 points (quick <=25), empties, coordinates of both signs, near-diagonal points, "
        "re-paired copies, M in {1,2,3,10,50} and random M in 1..259, scales 1e-3..1e3; one case in 251 has 1000-5000 points and M in 50..1000 with (m+n)*M between 1.1e6 and 6e6; translations along the diagonal into negative coordinates. non-trivial = both "
        "non-empty and (m != n or coordinates of mixed sign); distinct = digest of (pair, M)")
ASSUMPTIONS = ["directions: theta_k = pi/2 + k*pi/M, k=0..M-1 (equally spaced over the half circle, starting at the vertical) - "
               "the sampling the statement calls 'the M sampled directions'",
               "oracle in float64: per direction sorted projections of D1 u proj(D2) vs D2 u proj(D1), L1, averaged",
               "tolerance 1e-6*scale*(m+n+1): persim projects with float32 direction vectors",
               "SW <= 2*W1 re-derived: matched pairs and their diagonal feet are transported together"]
REQUIRED_NOTES = ["large-cases"]
TECHNIQUE = "runtime monitoring: postcondition + metamorphic monitor on persim.sliced_wasserstein with a float64 re-implementation of the definition"


def setup(ctx):
    global sw, wasserstein
    import persim
    sw, wasserstein = persim.sliced_wasserstein, persim.wasserstein


def ref_sw(A, B, M):
    A = np.asarray(A, float).reshape(-1, 2); B = np.asarray(B, float).reshape(-1, 2)
    if len(A) + len(B) == 0:
        return 0.0
    pa = np.repeat(((A[:, 0] + A[:, 1]) / 2)[:, None], 2, axis=1)
    pb = np.repeat(((B[:, 0] + B[:, 1]) / 2)[:, None], 2, axis=1)
    U = np.vstack([A, pb]); V = np.vstack([B, pa])
    tot = 0.0
    for k in range(M):
        th = math.pi / 2 + k * math.pi / M
        w = np.array([math.cos(th), math.sin(th)])
        tot += float(np.sum(np.abs(np.sort(U @ w) - np.sort(V @ w))))
    return tot / M


def gen_pair(rng, tier):
    top = 25 if tier == "quick" else 40
    m, n = (int(rng.integers(0, top + 1)) for _ in range(2))
    if rng.random() < 0.015:        # sizes around and above 128 / 256
        m, n = int(rng.choice([127, 128, 129, 200, 256, 257, 300])), int(rng.integers(100, 301))
    if rng.random() < 0.1:
        m, n = [(0, 0), (0, 3), (4, 0), (1, 1), (1, 2)][int(rng.integers(0, 5))]
    scale = float(rng.choice([1e-3, 0.1, 1, 1, 1, 10, 1e3, 1e-12, 2.0 ** -34, 1e-9, 1e9]))
    kind = str(rng.choice(["float", "cluster", "dyadic", "diagheavy", "grid", "decimal", "h0"]))
    A, B = gen.diagram(rng, m, kind, scale), gen.diagram(rng, n, kind, scale)
    if rng.random() < 0.06 and m >= 2:
        B = gen.repaired(rng, A)        # same births and same deaths, paired differently
    elif rng.random() < 0.06 and m >= 1:
        B = A + rng.normal(0, float(rng.choice([1e-9, 1e-7, 1e-4])) * scale, A.shape)      # a copy perturbed in place order (stability experiments)
        B[:, 1] = np.maximum(B[:, 1], B[:, 0])
    if rng.random() < 0.15 and m and n:
        A = gen.specialize(rng, A, scale); B = gen.entangle(rng, A, gen.specialize(rng, B, scale))
    if rng.random() < 0.08 and m and n:
        # pairs recorded with birth > death (superlevel-set filtrations, the relative part of extended persistence, a negated diagram):
        # the definition (projections, 1-D transport) does not care on which side of the diagonal a point lies
        if rng.random() < 0.5:
            A, B = -A, -B
        else:
            fa_ = rng.random(len(A)) < 0.4; fb_ = rng.random(len(B)) < 0.4
            A[fa_] = A[fa_][:, ::-1]; B[fb_] = B[fb_][:, ::-1]
    sign = str(rng.choice(["pos", "neg", "mixed", "pos"]))
    if sign == "neg":
        s = -float(rng.uniform(3, 30)) * scale
        A, B = A + s, B + s
    elif sign == "mixed":
        s = -float(rng.uniform(0.3, 1.5)) * scale
        A, B = A + s, B + s
    return A, B, scale, sign


def large_case(ctx, k, rng):
    """thousands of points and hundreds of directions ((m+n)*M of one to six million): block-wise / vectorised evaluation must
    still be the plain average over the M directions"""
    scale = float(rng.choice([1e-3, 1, 1, 1e3]))
    m, n = int(rng.integers(500, 2501)), int(rng.integers(500, 2501))
    M = int(rng.choice([50, 200, 333, 600, 777, 1000]))
    while (m + n) * M < 1.1e6:
        m, n = m * 2, n * 2
    while (m + n) * M > 6e6:
        m, n = m // 2, n // 2
    kind = str(rng.choice(["float", "cluster", "diagheavy"]))
    A, B = gen.diagram(rng, m, kind, scale), gen.diagram(rng, n, kind, scale)
    if rng.random() < 0.3:
        A, B = A - 0.7 * scale, B - 0.7 * scale
    ctx.begin(k, "large", {"m": m, "n": n, "M": M, "PD1_head": A[:4], "PD2_head": B[:4], "kind": kind, "scale": scale})
    ctx.note("large-cases")
    sc = scale_of(A, B)
    t = 1e-6 * sc * (m + n + 1)
    try:
        ctx.ran(2)
        v = float(sw(A, B, M))
        ref = ref_sw(A, B, M)
        ctx.check("value==averaged 1-D transport cost", abs(v - ref) <= t, got=v, ref=ref, M=M, m=m, n=n)
        nb = int(rng.integers(1, 400))
        tb = rng.uniform(-sc, sc, nb)
        B2 = np.vstack([B, np.column_stack([tb, tb])])[rng.permutation(n + nb)]
        v2 = float(sw(A, B2, M))
        ctx.check("diagonal points ignored", abs(v2 - v) <= t, got=v2, base=v, added=nb)
        ctx.mark_nontrivial(m, n, M, float(A.sum()), float(B.sum()))
    except Exception as e:
        ctx.exception("returns a value", e)


def run_case(ctx, k, rng):
    if k % 251 == 9:
        return large_case(ctx, k, rng)
    A, B, scale, sign = gen_pair(rng, ctx.tier)
    M = int(rng.choice([1, 2, 3, 10, 50, 50])) if rng.random() < 0.6 else int(rng.integers(1, 260))
    ctx.begin(k, sign, {"PD1": A, "PD2": B, "M": M})
    sc = scale_of(A, B)
    A0, B0 = A.copy(), B.copy()         # pristine copies: the arrays A, B are reused across the related calls below, as a caller would

    def tol(P, Q, s=sc):
        return 1e-6 * s * (len(P) + len(Q) + 1)

    def f(P, Q, MM=M):
        ctx.ran()
        return sw(P, Q, MM)
    mixed = bool(np.any(np.concatenate([A.ravel(), B.ravel()]) < 0)) if len(A) + len(B) else False
    if len(A) and len(B) and (len(A) != len(B) or mixed):
        ctx.mark_nontrivial(A, B, M)
    try:
        v = f(A, B)
    except Exception as e:
        ctx.exception("returns a value", e)
        return
    if not ctx.check("returns a value", isinstance(v, (int, float, np.floating)) and math.isfinite(v), got=repr(v)):
        return
    v = float(v)
    ref = ref_sw(A0, B0, M)
    negsum = bool(np.any(A.sum(axis=1) < 0)) if len(A) else False
    negsum = negsum or (bool(np.any(B.sum(axis=1) < 0)) if len(B) else False)
    ctx.check("value==averaged 1-D transport cost", abs(v - ref) <= tol(A, B), got=v, ref=ref, M=M,
              has_negative_birth_plus_death=negsum)
    # representation: integer-valued diagrams as integer arrays (sums b+d of either parity) must give the same value
    if rng.random() < 0.25 and len(A) and len(B):
        Ai = np.round(A / sc * float(rng.choice([7, 60]))).astype(np.int64); Bi = np.round(B / sc * float(rng.choice([7, 60]))).astype(np.int64)
        Ai[:, 1] = np.maximum(Ai[:, 1], Ai[:, 0]); Bi[:, 1] = np.maximum(Bi[:, 1], Bi[:, 0])
        (Ai, da), (Bi, db) = vforms.as_int_dtype(rng, Ai), vforms.as_int_dtype(rng, Bi)
        ctx.set_payload({"PD1": Ai, "PD2": Bi, "M": M, "dtype": [da, db]})
        try:
            vi = float(f(Ai, Bi)); vf = float(f(Ai.astype(float), Bi.astype(float)))
            refi = ref_sw(Ai, Bi, M)
            ti = 1e-6 * scale_of(Ai, Bi) * (len(Ai) + len(Bi) + 1)
            ctx.check("integer arrays == float arrays of the same values", abs(vi - vf) <= ti and abs(vi - refi) <= ti, int_form=vi,
                      float_form=vf, ref=refi)
            mixed = float(f(Ai, Bi.astype(float)))
            ctx.check("integer arrays == float arrays of the same values", abs(mixed - refi) <= ti, mixed_form=mixed, ref=refi)
        except Exception as e:
            ctx.exception("integer arrays == float arrays of the same values", e)
        ctx.set_payload({"PD1": A, "PD2": B, "M": M})
    if len(A) and len(B) and rng.random() < 0.12:
        PA, PB = A0.copy(), B0.copy()
        try:
            first = float(f(PA, PB))
            how = vforms.update_in_place(rng, PA if rng.random() < 0.7 else PB, sc)
            v_now, rfu = float(f(PA, PB)), ref_sw(PA.copy(), PB.copy(), M)
            ctx.check("after an in-place update the value is that of the current contents", abs(v_now - rfu) <= 1e-6 * scale_of(PA, PB) * (len(PA) + len(PB) + 1),
                      got=v_now, ref_on_current_values=rfu, before_update=first, update=how)
        except Exception as e:
            ctx.exception("after an in-place update the value is that of the current contents", e)
    if rng.random() < 0.06:
        ia, fa_, da = vforms.near_limit_int_diagram(rng, int(rng.integers(1, 8)), positive_length=False)
        ib, fb_, db = vforms.near_limit_int_diagram(rng, int(rng.integers(1, 8)), dtypes=(np.dtype(da).type,), positive_length=False)
        ctx.set_payload({"PD1": ia, "PD2": ib, "M": M, "dtype": da})
        try:
            vi, vf, rf = float(f(ia, ib)), float(f(fa_, fb_)), ref_sw(fa_, fb_, M)
            tn = 1e-6 * scale_of(fa_, fb_) * (len(fa_) + len(fb_) + 1)
            ctx.check("narrow integer dtype near its limits == float64 of the same values", abs(vi - rf) <= tn and abs(vf - rf) <= tn,
                      int_form=vi, float_form=vf, ref=rf, dtype=da)
        except Exception as e:
            ctx.exception("narrow integer dtype near its limits == float64 of the same values", e)
        ctx.set_payload({"PD1": A, "PD2": B, "M": M})
    try:
        sub = int(rng.integers(0, 6))
        if sub == 0:
            v2 = float(f(B, A))
            ctx.check("symmetric", abs(v2 - v) <= tol(A, B), ab=v, ba=v2)
            if len(A) and len(B):
                (fa, na), (fb, nb) = vforms.relayout(rng, A), vforms.relayout(rng, B)
                vy = float(f(fa, fb))
                ctx.check("another memory layout agrees", abs(vy - v) <= 1e-12 * sc, base=v, other=vy, layouts=[na, nb])
            if len(A):
                vp = float(f(A, A[rng.permutation(len(A))]))
                ctx.check("reorder=>0", abs(vp) <= tol(A, A), got=vp)
                vs = float(f(A, A))                  # the very same object on both sides
                ctx.check("the same array as both arguments => 0", abs(vs) <= tol(A, A), got=vs)
        elif sub == 1:
            C = gen.diagram(rng, int(rng.integers(0, 20)), None, scale) + (A[0, 0] if len(A) else 0.0) * float(rng.integers(0, 2))
            ctx.set_payload({"A": A, "B": B, "C": C, "M": M})
            a, b = float(f(A, C)), float(f(C, B))
            s3 = scale_of(A, B, C)
            # a distance matrix reuses the same array objects in many pairs: the value must be the one fresh copies give
            a0, b0 = ref_sw(A0, C, M), ref_sw(C, B0, M)
            ctx.check("arrays reused across calls give the values of fresh copies", abs(a - a0) <= tol(A, C, s3) and abs(b - b0) <= tol(C, B, s3),
                      ac=a, ac_fresh=a0, cb=b, cb_fresh=b0)
            ctx.check("triangle", v <= a + b + tol(A, B, s3) + tol(A, C, s3) + tol(C, B, s3), ab=v, ac=a, cb=b)
        elif sub == 2:
            na, nb = int(rng.integers(0, 5)), int(rng.integers(1, 5))
            lo, hi = -sc, sc
            ta, tb = rng.uniform(lo, hi, na), rng.uniform(lo, hi, nb)
            A2 = np.vstack([A, np.column_stack([ta, ta])])[rng.permutation(len(A) + na)]
            B2 = np.vstack([B, np.column_stack([tb, tb])])[rng.permutation(len(B) + nb)]
            ctx.set_payload({"PD1": A2, "PD2": B2, "M": M})
            v2 = float(f(A2, B2))
            ctx.check("diagonal points ignored", abs(v2 - v) <= tol(A2, B2), got=v2, base=v)
        elif sub == 3:
            s = -float(rng.uniform(0.5, 20)) * sc if rng.random() < 0.7 else float(rng.uniform(0.5, 20)) * sc
            ctx.set_payload({"PD1": A, "PD2": B, "M": M, "shift": s})
            v2 = float(f(A + s, B + s))
            ctx.check("diagonal translation (also negative)", abs(v2 - v) <= tol(A, B, sc + abs(s)), got=v2, base=v, shift=s)
        elif sub == 4:
            c = float(rng.choice([1e-3, 0.5, 2.0, 3.0, 7.3, 1e3]))
            v2 = float(f(A * c, B * c))
            ctx.check("linear scaling", abs(v2 - c * v) <= c * tol(A, B), got=v2, expected=c * v, c=c)
        elif (len(A) == 0 or np.all(A[:, 1] >= A[:, 0])) and (len(B) == 0 or np.all(B[:, 1] >= B[:, 0])):
            # (the Wasserstein distance charges (d-b)/sqrt 2 for the diagonal: only defined on or above it)
            ctx.ran()
            w1 = float(wasserstein(A, B))
            wt = 1e-7 * sc * (len(A) + len(B) + 1)
            ctx.check("SW <= 2*W1", v <= 2 * (w1 + wt) + tol(A, B), sw=v, w1=w1)
    except Exception as e:
        ctx.exception("related call returns", e)
