"""C02 — Wasserstein distance is the true min-sum matching cost."""
import math
import warnings

import numpy as np

from .. import gen
from .. import forms as vforms
from ..oracles import matching as OM
from ..util import scale_of
from .C01 import gen_pair

ID = "C02"
CASES = {"quick": 8000, "thorough": 600000}
MIN_NONTRIVIAL = {"quick": 600, "thorough": 60576}
REQUIRED = ["value==exhaustive min-sum", "value==assignment oracle", "sandwich bounds",
            "inf-death rows ignored with warning", "list/int forms agree"]
RULE = ("pairs of diagrams as in C01 (sizes 0..11 exhaustive, up to 60+60 quick / 300+300 thorough with an independent "
        "assignment oracle), plus 'mixed' inputs whose optimum must use both cross and diagonal pairings and inputs where "
        "/2 versus /sqrt(2) changes the optimal matching, plus one case in 397 with 515-760 points per diagram (M*N > 2**18); non-trivial = the optimal matching found by the exhaustive "
        "oracle has >=1 cross pair and >=1 diagonal pair (small cases) or optimum strictly below the all-diagonal cost "
        "with M != N (larger cases); distinct = digest of the input pair")
ASSUMPTIONS = ["cost rule from the statement: Euclidean between points, (d-b)/sqrt(2) to the diagonal",
               "tolerance 1e-7*scale*(M+N+1): persim obtains cross distances from sklearn.pairwise_distances, which "
               "expands |x|^2+|y|^2-2xy and is only sqrt(eps)-accurate; a wrong cost rule or matching differs by far more",
               "large sizes: Hungarian method on a table with a different layout (any diagonal slot absorbs any point); "
               "solver family shared with the implementation, which is why the exhaustive oracle covers M+N<=11"]
REQUIRED_NOTES = ["large-cases"]
TECHNIQUE = "runtime monitoring: postcondition monitor on persim.wasserstein with exhaustive and independent-layout assignment oracles"


def setup(ctx):
    global wasserstein
    import persim
    wasserstein = persim.wasserstein


def call(ctx, *a, **kw):
    ctx.ran()
    return wasserstein(*a, **kw)


def gen_mixed(rng):
    """a far-apart long bar on each side + near-coincident short ones + points for which the diagonal-cost constant
    decides between pairing and diagonal"""
    scale = gen.pick_scale(rng)
    m = int(rng.integers(1, 5)); n = int(rng.integers(1, 5))
    A = gen.diagram(rng, m, "float"); B = A[rng.integers(0, m, n)] + rng.normal(0, 0.02, (n, 2))
    B[:, 1] = np.maximum(B[:, 1], B[:, 0])
    A = np.vstack([A, [[0.0, 5.0 + rng.random()]]]); B = np.vstack([B, [[20.0, 26.0 + rng.random()]]])
    # decisive pair: p=(0,h) vs q=(x,x+h): cross = x*sqrt2 ; diagonals = 2*h/sqrt2 (true) or h (if /2 were used)
    h = 0.5 + rng.random()
    x = h * float(rng.uniform(0.72, 0.98))      # h/sqrt2*... cross=x*1.414 in (1.02h,1.386h): between h and 1.414h
    A = np.vstack([A, [[10.0, 10.0 + h]]]); B = np.vstack([B, [[10.0 + x, 10.0 + x + h]]])
    pa, pb = rng.permutation(len(A)), rng.permutation(len(B))
    return A[pa] * scale, B[pb] * scale, scale


def run_case(ctx, k, rng):
    if k % 397 == 5:
        # large diagrams (M*N beyond 2**18, a few hundred points each): size-gated code paths must be as exact as the small ones
        scale = gen.pick_scale(rng)
        m, n = int(rng.integers(515, 760)), int(rng.integers(515, 760))
        A = gen.diagram(rng, m, str(rng.choice(["float", "cluster", "diagheavy", "dyadic"])), scale)
        B = gen.diagram(rng, n, str(rng.choice(["float", "cluster", "diagheavy", "dyadic"])), scale)
        if rng.random() < 0.4:      # noisy copy of A plus extra low-persistence points
            B = np.vstack([A + rng.normal(0, 0.05 * scale, A.shape), gen.diagram(rng, int(rng.integers(1, 60)), "diagheavy", scale)])
            B[:, 1] = np.maximum(B[:, 1], B[:, 0])
        small = False; cls = "large"
        ctx.note("large-cases")
    elif rng.random() < 0.2:
        A, B, scale = gen_mixed(rng); small = len(A) + len(B) <= 11; cls = "mixed"
    else:
        A, B, scale, small = gen_pair(rng, "quick" if ctx.tier == "quick" else "thorough")
        if not small and rng.random() < (0.08 if ctx.tier == "thorough" else 0.04):
            # sizes around and above 128 / 256 (block sizes, small-integer index types)
            m, n = int(rng.integers(100, 301)), int(rng.integers(100, 301))
            if rng.random() < 0.5:
                m = int(rng.choice([127, 128, 129, 255, 256, 257]))
            A, B = gen.diagram(rng, m, None, scale), gen.diagram(rng, n, None, scale)
        cls = "small" if small else "medium"
    ctx.begin(k, cls, {"dgm1": A, "dgm2": B})
    S, T = OM.finite_rows(A), OM.finite_rows(B)
    tol = 1e-7 * scale_of(A, B) * (len(S) + len(T) + 1)
    try:
        with ctx.fp_sensor():
            v = call(ctx, A, B)
    except Exception as e:
        ctx.exception("returns a value", e)
        return
    if not ctx.check("returns a value", isinstance(v, (float, np.floating)) and math.isfinite(v), got=repr(v)):
        return
    v = float(v)
    ref = OM.wasserstein_lsa(S, T)
    ctx.check("value==assignment oracle", abs(v - ref) <= tol, got=v, ref=ref, tol=tol)
    alld = OM.all_diagonal(S, T, "ws")
    if len(S) + len(T) <= 11:
        ex, pairs = OM.exhaustive(S, T, "ws")
        if abs(ex - ref) > 1e-9 * scale_of(A, B) * (len(S) + len(T) + 1):
            raise AssertionError("oracles disagree: exhaustive %r lsa %r" % (ex, ref))
        ctx.check("value==exhaustive min-sum", abs(v - ex) <= tol, got=v, ref=ex, matching=pairs, tol=tol)
        if any(i >= 0 and j >= 0 for i, j in pairs) and any(i < 0 or j < 0 for i, j in pairs):
            ctx.mark_nontrivial(A, B)
    elif ref < alld - tol and len(S) != len(T):
        ctx.mark_nontrivial(A, B)
    # sandwich, valid at any size: v <= all-diagonal cost; v >= |pers(A)-pers(B)|/sqrt2 (triangle inequality via the
    # empty diagram)
    lower = abs(math.fsum(d - b for b, d in S) - math.fsum(d - b for b, d in T)) / OM.SQRT2
    ctx.check("sandwich bounds", lower - tol <= v <= alld + tol and v >= -tol, got=v, lower=lower, upper=alld)

    if A.size and B.size and scale_of(A, B) > 1e-100 and len(A) + len(B) <= 120 and rng.random() < 0.12:
        PA, PB = A.copy(), B.copy()
        try:
            first = call(ctx, PA, PB)
            how = vforms.update_in_place(rng, PA if rng.random() < 0.7 else PB, scale_of(A, B))
            v_now, v_fresh = float(call(ctx, PA, PB)), OM.wasserstein_lsa(OM.finite_rows(PA.copy()), OM.finite_rows(PB.copy()))
            ctx.check("after an in-place update the value is that of the current contents",
                      abs(v_now - v_fresh) <= 1e-7 * scale_of(PA, PB) * (len(PA) + len(PB) + 1), got=v_now, oracle_on_current_values=v_fresh,
                      before_update=first, update=how)
        except Exception as e:
            ctx.exception("after an in-place update the value is that of the current contents", e)
    sub = int(rng.integers(0, 3))
    if sub == 0:
        which = int(rng.integers(1, 4))
        A2 = gen.insert_inf_rows(rng, A, int(rng.integers(1, 3))) if which & 1 else A
        B2 = gen.insert_inf_rows(rng, B, int(rng.integers(1, 3))) if which & 2 else B
        ctx.set_payload({"dgm1": A2, "dgm2": B2})
        try:
            with warnings.catch_warnings(record=True) as wl:
                warnings.simplefilter("always")
                v2 = call(ctx, A2, B2)
            msgs = [str(w.message) for w in wl]
            need = (["dgm1"] if which & 1 else []) + (["dgm2"] if which & 2 else [])
            warned = all(any(nm in m and "non-finite" in m for m in msgs) for nm in need)
            ctx.check("inf-death rows ignored with warning", abs(float(v2) - v) <= 1e-12 * scale_of(A, B) and warned,
                      got=v2, base=v, warnings=msgs)
        except Exception as e:
            ctx.exception("inf-death rows ignored with warning", e)
    elif sub == 1:
        try:
            vl = call(ctx, A.tolist(), B.tolist())
            ok = abs(float(vl) - v) <= 1e-12 * scale_of(A, B)
            info = {"list": vl}
            if A.size and B.size and np.all(A == np.round(A)) and np.all(B == np.round(B)) and scale_of(A, B) < 1e9:
                (ia, da), (ib, db) = vforms.as_int_dtype(rng, A), vforms.as_int_dtype(rng, B)
                info["int_dtypes"] = [da, db]
                vi = call(ctx, ia, ib)
                ok = ok and abs(float(vi) - v) <= tol
                info["int"] = vi
                ctx.note("int-form-cases")
            if A.size and B.size and rng.random() < 0.5:
                vx = call(ctx, vforms.with_extra_columns(rng, A), vforms.with_extra_columns(rng, B) if rng.random() < 0.7 else B)
                ok = ok and abs(float(vx) - v) <= 1e-12 * scale_of(A, B)
                info["extra_columns"] = vx
            if A.size and B.size:
                (fa, na), (fb, nb) = vforms.relayout(rng, A), vforms.relayout(rng, B)
                vf = call(ctx, fa, fb)
                ok = ok and abs(float(vf) - v) <= 1e-12 * scale_of(A, B)
                info["layout"] = [na, nb, vf]
                ctx.note("layout-form-cases")
            ctx.check("list/int forms agree", ok, base=v, **info)
            if rng.random() < 0.3:
                ia, fa_, da = vforms.near_limit_int_diagram(rng, int(rng.integers(1, 7)))
                ib, fb_, db = vforms.near_limit_int_diagram(rng, int(rng.integers(1, 7)), dtypes=(np.dtype(da).type,))
                ctx.set_payload({"dgm1": ia, "dgm2": ib, "dtype": da})
                vi, vf = float(call(ctx, ia, ib)), float(call(ctx, fa_, fb_))
                ref2 = OM.wasserstein_lsa(OM.finite_rows(fa_), OM.finite_rows(fb_))
                t2 = 1e-7 * scale_of(fa_, fb_) * (len(fa_) + len(fb_) + 1)
                ctx.check("narrow integer dtype near its limits == float64 of the same values", abs(vi - vf) <= t2 and abs(vi - ref2) <= t2,
                          int_form=vi, float_form=vf, oracle=ref2, dtype=da)
        except Exception as e:
            ctx.exception("list/int forms agree", e)
    else:
        try:
            pa, pb = rng.permutation(len(A)), rng.permutation(len(B))
            v3 = call(ctx, B[pb] if len(B) else B, A[pa] if len(A) else A)
            ctx.check("swap+reorder gives same value", abs(float(v3) - v) <= tol, got=v3, base=v)
        except Exception as e:
            ctx.exception("swap+reorder gives same value", e)
