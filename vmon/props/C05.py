"""C05 — mGH estimates always bracket the true modified Gromov-Hausdorff distance (inputs x RNG schedules x configurations)."""
import warnings

import numpy as np

from .. import graphforms
from ..oracles import mgh as OM

ID = "C05"
CASES = {"quick": 2200, "thorough": 20000}
MIN_NONTRIVIAL = {"quick": 800, "thorough": 1852}
REQUIRED = ["lower <= true mGH (exact oracle)", "true mGH <= upper (exact oracle)", "2*lower and 2*upper are non-negative integers",
            "lower <= upper", "isomorphic graphs get lower bound 0", "reported distortion of every sampled map is its real distortion",
            "upper == 1/2 max over directions of the best sampled map", "lower <= 1/2 max distortion of independent maps"]
RULE = ("pairs of connected graphs from paths, cycles, stars, spiders, caterpillars, random trees, lollipops, barbells, grids, complete, "
        "complete bipartite and connected G(n,p), randomly relabelled: n<=8 (quick) / 9 (thorough) with the exact oracle, plus pairs of random trees with 8-10 vertices and pairs (graph, degree-preserving 2-switch of it) with 5-8 vertices, all with the exact oracle (min "
        "distortion by backtracking, both directions), n<=40 with witness clauses, 50-140 vertex long-diameter graphs (paths, cycles, caterpillars, trees, lollipops; diameters 40-139, half of them against a relabelled copy of themselves) and 128-160 vertex pairs across the int8/int16 boundary: sparse vs sparse (witness clauses) and dense, twin-rich graphs (complete, complete bipartite, star, lollipop, G(n,.5)) vs graphs of <=6 vertices, for which the exact oracle applies after an exact twin reduction. "
        "Every pair is run under several NumPy RNG states and under substituted draws (identity / reversed / rotated permutations; "
        "first / last / constant choice) and with mapping_sample_size_order in {[.5,1],[0,0],[1,1],[0,3],[2,0],[-1,-1]}. non-trivial = "
        "both graphs >=4 vertices, different distance matrices up to relabelling signature, max diameter >=3; distinct = digest of "
        "the pair's sorted distance-matrix signature")
ASSUMPTIONS = ["true distance = 1/2 max(min distortion X->Y, min distortion Y->X) over all maps, by exhaustive backtracking with pruning "
               "(20 s budget per pair; timeouts are counted and make the run inconclusive above 2%)",
               "maps built by the heuristic are captured by wrapping construct_mapping from the harness (no repository change)",
               "substituted draws are injected by patching numpy.random.permutation / choice for the duration of one call"]
REQUIRED_NOTES = ["ring-cases", "ring-cases with exact oracle", "adversary-cases"]
TECHNIQUE = "runtime monitoring: postcondition monitor on gromov_hausdorff with an exact backtracking oracle, captured-witness recomputation, and RNG-as-scheduler substitution"

MSO = [np.array([.5, 1]), np.array([0, 0]), np.array([1, 1]), np.array([0, 3]), np.array([2, 0]), np.array([-1, -1])]
CAPTURED = []


ORIG_CONSTRUCT = [None]


def setup(ctx):
    global GH, gh
    import importlib
    GH = importlib.import_module("persim.gromov_hausdorff")   # (persim.gromov_hausdorff the *attribute* is the function)
    gh = GH.gromov_hausdorff
    orig = GH.construct_mapping
    ORIG_CONSTRUCT[0] = orig

    def spy(DX, DY, pi):
        imgs, dis = orig(DX, DY, pi)
        CAPTURED.append((DX, DY, np.array(pi), list(imgs), dis))
        return imgs, dis
    GH.construct_mapping = spy


class Schedule:
    """substitutes the draws the heuristic consumes"""

    def __init__(self, mode, seed):
        self.mode, self.rng = mode, np.random.default_rng(seed)
        self.calls = 0

    def permutation(self, n):
        self.calls += 1
        base = np.arange(n)
        if self.mode == "identity":
            return base
        if self.mode == "reversed":
            return base[::-1].copy()
        if self.mode == "rotated":
            return np.roll(base, self.calls)
        return self.rng.permutation(n)

    def choice(self, n):
        if self.mode in ("identity", "first"):
            return 0
        if self.mode in ("reversed", "last"):
            return n - 1
        if self.mode == "rotated":
            return self.calls % n
        return int(self.rng.integers(0, n))


def call(ctx, A, B, mso, sched):
    del CAPTURED[:]
    ctx.ran()
    if isinstance(sched, int):
        np.random.seed(sched)
        with warnings.catch_warnings(record=True) as wl:
            warnings.simplefilter("always")
            out = gh(A, B, mso) if mso is not None else gh(A, B)
    else:
        op, oc = np.random.permutation, np.random.choice
        np.random.permutation, np.random.choice = sched.permutation, sched.choice
        try:
            with warnings.catch_warnings(record=True) as wl:
                warnings.simplefilter("always")
                out = gh(A, B, mso) if mso is not None else gh(A, B)
        finally:
            np.random.permutation, np.random.choice = op, oc
    for w in wl:
        ctx.sensors["warn:" + w.category.__name__ + ":" + str(w.message)[:40]] += 1
    return out, list(CAPTURED)


def signature(D):
    return sorted(tuple(sorted(r)) for r in D)


def judge_common(ctx, out, tag=""):
    ok = isinstance(out, tuple) and len(out) == 2 and all(isinstance(v, (float, np.floating)) for v in out)
    if not ctx.check("returns (lower, upper)", ok, got=repr(out)[:100]):
        return None
    lb, ub = float(out[0]), float(out[1])
    ctx.check("2*lower and 2*upper are non-negative integers", lb >= 0 and ub >= 0 and (2 * lb) == int(2 * lb) and (2 * ub) == int(2 * ub),
              lower=lb, upper=ub)
    ctx.check("lower <= upper", lb <= ub, lower=lb, upper=ub)
    return lb, ub


def judge_witnesses(ctx, lb, ub, cap, DXo, DYo, nX, nY):
    """DXo, DYo: oracle metrics (lists); cap: captured maps"""
    if not cap:
        ctx.note("no maps captured")
        return
    first_DX = cap[0][0]
    dirs = {0: [], 1: []}
    okall, bad = True, None
    for (DX, DY, pi, imgs, dis) in cap:
        d = 0 if DX is first_DX else 1
        f = [None] * len(pi)
        for pos, x in enumerate(pi):
            f[int(x)] = int(imgs[pos])
        src, dst = (DXo, DYo) if d == 0 else (DYo, DXo)
        if len(f) != len(src) or any(v is None or not (0 <= v < len(dst)) for v in f):
            okall, bad = False, {"reason": "not a map", "pi": pi, "images": imgs}
            continue
        real = OM.distortion(src, dst, f)
        if real != int(dis):
            okall, bad = False, {"reported": int(dis), "real": real, "direction": d, "map": f}
        dirs[d].append((real, f))
    ctx.check("reported distortion of every sampled map is its real distortion", okall, witness=bad, maps=len(cap))
    if dirs[0] and dirs[1]:
        m0, m1 = min(dirs[0])[0], min(dirs[1])[0]
        ctx.check("upper == 1/2 max over directions of the best sampled map", ub == 0.5 * max(m0, m1), upper=ub, best=[m0, m1])
        if max(nX, nY) <= 40:
            f0, d0 = OM.improve_map(DXo, DYo, min(dirs[0])[1], rounds=2 if max(nX, nY) <= 25 else 1)
            f1, d1 = OM.improve_map(DYo, DXo, min(dirs[1])[1], rounds=2 if max(nX, nY) <= 25 else 1)
            # plus maps that owe nothing to the heuristic: proportional / wrapped / clipped index maps, each improved locally
            for fa in ([(i * nY) // nX for i in range(nX)], [i % nY for i in range(nX)], [min(i, nY - 1) for i in range(nX)]):
                d0 = min(d0, OM.improve_map(DXo, DYo, fa, rounds=1)[1])
            for fb in ([(i * nX) // nY for i in range(nY)], [i % nX for i in range(nY)], [min(i, nX - 1) for i in range(nY)]):
                d1 = min(d1, OM.improve_map(DYo, DXo, fb, rounds=1)[1])
        else:       # local search is cubic-times-n: for the few 128+ vertex pairs use simple independent maps instead
            cands0 = [[min(i, nY - 1) for i in range(nX)], [i % nY for i in range(nX)], [(i * nY) // nX for i in range(nX)]]
            cands1 = [[min(i, nX - 1) for i in range(nY)], [i % nX for i in range(nY)], [(i * nX) // nY for i in range(nY)]]
            d0 = min(OM.distortion(DXo, DYo, f) for f in cands0 + [min(dirs[0])[1]])
            d1 = min(OM.distortion(DYo, DXo, f) for f in cands1 + [min(dirs[1])[1]])
        ctx.check("lower <= 1/2 max distortion of independent maps", lb <= 0.5 * max(d0, d1), lower=lb, improved=[d0, d1])
        if max(d0, d1) < max(m0, m1):
            ctx.note("independent local search beat the heuristic's maps")
    else:
        ctx.note("only one direction captured")
    # the upper bound is a claim about BOTH directions: each must be witnessed by a sampled map, or by the inverse of a sampled
    # bijection (which has the same distortion); a bound below what the sampled maps witness corresponds to no pair of maps
    best = {0: None, 1: None}
    for d in (0, 1):
        cands = [real for real, f in dirs[d]]
        cands += [real for real, f in dirs[1 - d] if nX == nY and len(set(f)) == len(f)]
        best[d] = min(cands) if cands else None
    if best[0] is not None and best[1] is not None:
        ctx.check("upper bound is witnessed by sampled maps in both directions", 2 * ub >= max(best[0], best[1]), upper=ub, witnessed=[best[0], best[1]],
                  directions_sampled=[len(dirs[0]), len(dirs[1])])


class Scripted:
    """plays a prepared list of (permutation, first image) draws, then falls back to a seeded generator: a hostile scheduler for the
    sampling heuristic (the only randomness it consumes is one permutation and one choice per sampled map)"""

    def __init__(self, script, seed):
        self.perms = [np.array(p) for p, _ in script]
        self.firsts = [int(y) for _, y in script]
        self.rng = np.random.default_rng(seed)
        self.mode = "scripted"

    def permutation(self, n):
        if self.perms and len(self.perms[0]) == n:
            return self.perms.pop(0)
        self.perms = []
        return self.rng.permutation(n)

    def choice(self, n):
        if self.firsts:
            return self.firsts.pop(0) % n
        return int(self.rng.integers(0, n))


def adversary_case(ctx, k, rng):
    """same-size pairs whose two directions have different minimum distortions, with a SCRIPTED random stream: the first sampled map
    X->Y is a good non-injective one, every later one a worse bijection. Whatever the heuristic concludes from such a stream, the
    upper bound must still be at least the true distance (exact oracle)."""
    import time as _time
    n = int(rng.integers(5, 9))
    sparse = [lambda: OM.path(n), lambda: OM.random_tree(rng, n), lambda: OM.caterpillar(max(3, n - 2), [1, 1]), lambda: OM.cycle(n)]
    dense = [lambda: OM.star(n), lambda: OM.complete(n), lambda: OM.gnp_connected(rng, n, 0.6), lambda: OM.complete_bipartite(2, n - 2),
             lambda: OM.lollipop(n - 2, 2)]
    A = sparse[int(rng.integers(0, len(sparse)))](); B = dense[int(rng.integers(0, len(dense)))]()
    if rng.random() < 0.6:
        # two graphs of the same kind and size (trees, sparse random graphs): greedy maps between them are often bijections
        mk = (lambda: OM.random_tree(rng, n)) if rng.random() < 0.5 else (lambda: OM.gnp_connected(rng, n, float(rng.choice([0.3, 0.45]))))
        A, B = mk(), mk()
    if len(A) != len(B):
        B = OM.star(len(A))
    if rng.random() < 0.5:
        A, B = B, A
    A, _ = OM.relabel(rng, A); B, _ = OM.relabel(rng, B)
    DX, DY = OM.bfs_metric(A), OM.bfs_metric(B)
    ctx.begin(k, "adversary", {"A": A, "B": B})
    ctx.note("adversary-cases")
    dl = _time.monotonic() + 10.0
    try:
        mxy, myx = OM.min_distortion(DX, DY, dl), OM.min_distortion(DY, DX, dl)
    except OM.OracleTimeout:
        ctx.note("oracle_timeout")
        return
    true2 = max(mxy, myx)
    if mxy > myx:           # script the direction that is searched first (X -> Y) to be the one with the smaller minimum
        A, B, DX, DY, mxy, myx = B, A, DY, DX, myx, mxy
        ctx.set_payload({"A": A, "B": B})
    # candidate maps X->Y exactly as the heuristic would build them from (permutation, first image)
    nA, nB = len(A), len(B)
    DXa, DYa = np.array(DX), np.array(DY)
    good, bij = None, None
    op, oc = np.random.permutation, np.random.choice
    for _ in range(600):
        if good is not None and bij is not None:
            break
        pi, y0 = rng.permutation(nA), int(rng.integers(0, nB))
        np.random.choice = lambda m, _y=y0: _y % m
        try:
            imgs, dis = ORIG_CONSTRUCT[0](DXa, DYa, pi)
        finally:
            np.random.choice = oc
        injective = len(set(int(v) for v in imgs)) == nA
        if not injective and dis < true2 and good is None:
            good = (pi, y0, dis)
        if injective and bij is None:
            bij = (pi, y0, dis)
    if good is None or bij is None:
        ctx.note("adversary: no suitable pair of maps among 600 candidates")
        script = []
    else:
        ctx.note("adversary: scripted stream built")
        script = [(good[0], good[1])] + [(bij[0], bij[1])] * 60
    for mso in (None, MSO[2]):
        try:
            out, cap = call(ctx, A, B, mso, Scripted(list(script), int(rng.integers(0, 2 ** 31))))
        except Exception as e:
            ctx.exception("returns (lower, upper)", e, schedule="scripted")
            continue
        res = judge_common(ctx, out)
        if res is None:
            continue
        lb, ub = res
        ctx.note("exact-oracle checks:adversary")
        ctx.check("lower <= true mGH (exact oracle)", lb <= true2 / 2, lower=lb, true=true2 / 2, schedule="scripted")
        ctx.check("true mGH <= upper (exact oracle)", true2 / 2 <= ub, upper=ub, true=true2 / 2, schedule="scripted",
                  min_distortions=[mxy, myx], scripted=bool(script), first_map_distortion=(good[2] if good else None))
        judge_witnesses(ctx, lb, ub, cap, DX, DY, nA, nB)
    if mxy != myx:
        ctx.mark_nontrivial(signature(DX), signature(DY), "adversary")


def run_case(ctx, k, rng):
    if k % 23 == 3:
        return adversary_case(ctx, k, rng)
    import time as _time
    _t0 = _time.monotonic()
    r = rng.random()
    exact_n = 8 if ctx.tier == "quick" else 9
    if k % 16 == 4:
        mode = "rings"          # structured graphs of 9-24 vertices: cycles of different lengths, grids, ladders, caterpillars, paths -
        #                         large radius, nearly self-centred, long-range metric relations between the two graphs
        r = 2.0
    elif r < 0.08:
        mode = "switch"         # a graph against a degree-preserving edge switch of itself: equal invariants, usually not isomorphic
    elif r < 0.33:
        mode = "exact"
    elif r < 0.73:
        mode = "trees"          # pairs of random trees with 8-10 vertices: long diameters, many peripheral vertices - the regime
        #                         in which the curvature-based lower bound does real work (and where its pruning must stay sound)
    elif r < 0.85:
        mode = "iso"
    elif r < 0.92:
        mode = "witness"
    elif r < 0.982:
        mode = "bigdense"
    elif r < 0.994:
        mode = "long"           # 50-140 vertices with diameters 40-139: fills the gap between the witness sizes and 128+
    else:
        mode = "big"
    if mode == "rings":
        def ring(rr):
            fam = str(rr.choice(["cycle", "cycle", "cycle", "grid", "ladder", "caterpillar", "path", "lollipop"]))
            n = int(rr.integers(9, 25))
            G = {"cycle": lambda: OM.cycle(n), "grid": lambda: OM.grid(int(rr.integers(2, 5)), int(rr.integers(3, 7))),
                 "ladder": lambda: OM.grid(2, max(3, n // 2)), "caterpillar": lambda: OM.caterpillar(max(4, n - 4), [1, 0, 1, 1]),
                 "path": lambda: OM.path(n), "lollipop": lambda: OM.lollipop(int(rr.integers(3, 6)), n - 5)}[fam]()
            return G, fam + str(len(G))
        (A, fa), (B, fb) = ring(rng), ring(rng)
        ctx.note("ring-cases")
    elif mode == "exact":
        A, fa = OM.random_connected(rng, exact_n); B, fb = OM.random_connected(rng, exact_n)
    elif mode == "switch":
        n = int(rng.integers(5, 9))
        A = OM.gnp_connected(rng, n, float(rng.choice([0.45, 0.6, 0.75]))) if rng.random() < 0.7 else \
            [OM.complete_bipartite(3, 3), OM.complete_bipartite(2, 3), OM.cycle(6), OM.grid(2, 3), OM.complete_bipartite(4, 4)][int(rng.integers(0, 5))]
        B = OM.two_switch(rng, A, int(rng.integers(1, 3)))
        fa, fb = "gnp/regular", "2-switch"
    elif mode == "trees":
        A, B = OM.random_tree(rng, int(rng.integers(8, 11))), OM.random_tree(rng, int(rng.integers(8, 11)))
        fa = fb = "tree"
    elif mode == "iso":
        A, fa = OM.random_connected(rng, 14, 2); B, _ = OM.relabel(rng, A); fb = fa
    elif mode == "long":
        # graphs built to a target diameter D, with the boundary values of the small integer types over-represented
        D = int(rng.choice([63, 64, 65, 80, 100, 126, 127, 127] if ctx.tier == "quick" else [63, 64, 65, 80, 100, 126, 127, 127, 128, 129, 139]))
        fa = str(rng.choice(["path", "cycle", "caterpillar", "lollipop"]))
        A = {"path": lambda: OM.path(D + 1), "cycle": lambda: OM.cycle(2 * D + int(rng.integers(0, 2))),
             "caterpillar": lambda: OM.caterpillar(D + 1, [0, 1, 0, 2] + [0] * (D - 7) + [1, 0, 0]),
             "lollipop": lambda: OM.lollipop(4, D - 1)}[fa]()
        if fa == "cycle" and ctx.tier == "quick" and D > 65:
            A = OM.path(D + 1); fa = "path"          # 254-vertex cycles are too slow for the quick tier
        n1 = len(A)
        if rng.random() < 0.5:
            B, _ = OM.relabel(rng, A); fb = "big-iso"
        else:
            n2 = int(rng.choice([50, 64, 90, 127, 128]))
            B = OM.path(n2) if rng.random() < 0.5 else OM.caterpillar(n2 - 5, [2, 0, 1, 0, 2]); fb = "long"
        fa = "long:" + fa
    elif mode == "witness":
        A, fa = OM.random_connected(rng, 40, 9); B, fb = OM.random_connected(rng, 40, 9)
        if rng.random() < 0.3:      # perturbed copy: delete / add one edge, keep connected
            B = A.copy()
            i, j = rng.integers(0, len(B), 2)
            if i != j:
                B[i, j] = B[j, i] = 1 - B[i, j]
            if len(OM.components(B)) != 1:
                B = A.copy()
            fb = fa + "~"
    else:
        # modes "big" (sparse, slow) and "bigdense" (dense, small diameter): sizes across the int8 boundary of the distance / frequency tables, sparse and dense, against big and small partners
        n1, n2 = int(rng.integers(128, 150)), int(rng.integers(120, 161))
        fa = str(rng.choice(["complete", "bipartite", "star", "gnp.5", "lollipop"] if mode == "bigdense" else ["path", "gnp.05"]))
        A = {"path": lambda: OM.path(n1), "gnp.05": lambda: OM.gnp_connected(rng, n1, 0.05), "complete": lambda: OM.complete(n1),
             "bipartite": lambda: OM.complete_bipartite(int(rng.integers(1, 6)), n1), "star": lambda: OM.star(n1 + 1),
             "gnp.5": lambda: OM.gnp_connected(rng, n1, 0.5), "lollipop": lambda: OM.lollipop(n1, int(rng.integers(1, 6)))}[fa]()
        if mode == "big" and rng.random() < 0.35:
            A = OM.random_tree(rng, n1) if rng.random() < 0.5 else A      # a large graph against a relabelled copy of itself
            B, _ = OM.relabel(rng, A)
            fb = "big-iso"
        elif fa in ("path", "gnp.05") or rng.random() < 0.3:
            B = OM.cycle(n2) if rng.random() < 0.5 else OM.random_tree(rng, n2)
            fb = "big"
        else:
            # small partner (the exact oracle applies after twin reduction), biased towards graphs with three or more
            # mutually distant vertices - the curvature test of the lower bound only engages on those
            nb = int(rng.integers(3, 7))
            fb = str(rng.choice(["star", "path", "cycle", "bipartite", "spider", "tree", "any"]))
            B = {"star": lambda: OM.star(nb), "path": lambda: OM.path(nb), "cycle": lambda: OM.cycle(nb),
                 "bipartite": lambda: OM.complete_bipartite(1 + int(rng.integers(0, 2)), nb - 1),
                 "spider": lambda: OM.spider([1, 1, 2][: max(2, nb - 3)] + [1]), "tree": lambda: OM.random_tree(rng, nb),
                 "any": lambda: OM.random_connected(rng, 6, 2)[0]}[fb]()
            if len(B) > 6:
                B = OM.star(5)
        fa = "big:" + fa
    A, _ = OM.relabel(rng, A); B, _ = OM.relabel(rng, B)
    msoi = int(rng.integers(0, len(MSO))) if rng.random() < 0.6 else 0
    if max(len(A), len(B)) > 20 and msoi in (3, 4):
        msoi = 2 if max(len(A), len(B)) <= 40 else 0
    if mode in ("big", "bigdense", "long"):
        msoi = 5
    mso = MSO[msoi]
    ctx.begin(k, mode, {"A": A, "B": B, "mapping_sample_size_order": mso, "families": [fa, fb]})
    DX, DY = OM.bfs_metric(A), OM.bfs_metric(B)
    diam = max(max(map(max, DX)), max(map(max, DY)))
    if len(A) >= 4 and len(B) >= 4 and diam >= 3 and signature(DX) != signature(DY):
        ctx.mark_nontrivial(signature(DX), signature(DY), sample={"A": A.tolist() if len(A) <= 9 else "n=%d" % len(A),
                                                                  "B": B.tolist() if len(B) <= 9 else "n=%d" % len(B), "families": [fa, fb]})
    true2 = None
    if mode in ("exact", "trees", "switch"):
        try:
            true2 = OM.mgh_exact_doubled(DX, DY, timeout=20.0)
        except OM.OracleTimeout:
            ctx.note("oracle_timeout")
    elif mode == "rings":
        try:
            true2 = OM.mgh_exact_doubled(DX, DY, timeout=4.0)
            ctx.note("ring-cases with exact oracle")
        except OM.OracleTimeout:
            ctx.note("ring-cases without exact oracle (independent maps only)")
    elif mode == "bigdense" and len(B) <= 6:
        # exact distance for a 128+ vertex graph with few twin classes against a small graph (see oracles/mgh.twin_reduce)
        DXr, ncls = OM.twin_reduce(DX, len(B) + 1)
        if len(DXr) <= 16:
            try:
                true2 = OM.mgh_exact_doubled(DXr, DY, timeout=20.0)
                ctx.note("exact oracle via twin reduction")
            except OM.OracleTimeout:
                ctx.note("oracle_timeout_bigdense")
    scheds = [int(rng.integers(0, 2 ** 31)), Schedule(str(rng.choice(["identity", "reversed", "rotated", "first", "last"])), 1)]
    if mode not in ("big", "bigdense", "long"):
        scheds.append(int(rng.integers(0, 2 ** 31)) if rng.random() < 0.5 else Schedule("random", int(rng.integers(0, 2 ** 31))))
    lbs = set()
    for s in scheds:
        sname = "seed" if isinstance(s, int) else s.mode
        ctx.seen("schedules", sname)
        ctx.seen("mapping_sample_size_order", str(mso.tolist()))
        try:
            # dense or sparse, any storage: a third of the calls receive the same two graphs in another concrete form
            if rng.random() < 0.35:
                fA, nmA = graphforms.random_form(rng, A); fB, nmB = graphforms.random_form(rng, B)
                ctx.seen("input forms", nmA); ctx.seen("input forms", nmB); ctx.note("calls with another input form")
            else:
                fA, fB, nmA, nmB = A, B, "dense-sym", "dense-sym"
            ctx.set_payload({"A": A, "B": B, "mapping_sample_size_order": mso, "families": [fa, fb], "forms": [nmA, nmB]})
            out, cap = call(ctx, fA, fB, mso if (msoi or rng.random() < 0.5) else None, s)
        except Exception as e:
            ctx.exception("returns (lower, upper)", e, schedule=sname, n=[len(A), len(B)])
            continue
        res = judge_common(ctx, out)
        if res is None:
            continue
        lb, ub = res
        lbs.add(lb)
        if true2 is not None:
            ctx.note("exact-oracle checks:" + mode)
            ctx.check("lower <= true mGH (exact oracle)", lb <= true2 / 2, lower=lb, true=true2 / 2, schedule=sname)
            ctx.check("true mGH <= upper (exact oracle)", true2 / 2 <= ub, upper=ub, true=true2 / 2, schedule=sname)
            if lb < true2 / 2 < ub:
                ctx.note("strict bracket lb<true<ub")
            trivial = max(abs(max(map(max, DX)) - max(map(max, DY))), int(len(A) != len(B)))
            if 2 * lb > trivial:
                ctx.note("curvature test raised lb above the trivial bound")
        if mode == "iso" or fb == "big-iso":
            ctx.check("isomorphic graphs get lower bound 0", lb == 0.0, lower=lb, schedule=sname)
        judge_witnesses(ctx, lb, ub, cap, DX, DY, len(A), len(B))
        if true2 is not None and isinstance(s, int) and rng.random() < 0.4:
            # the distance is symmetric in its arguments; the two bounds are computed by code that treats them differently
            try:
                out_sw, _ = call(ctx, fB, fA, mso, s)
                lbs_, ubs_ = float(out_sw[0]), float(out_sw[1])
                ctx.check("lower <= true mGH (exact oracle)", lbs_ <= true2 / 2, lower=lbs_, true=true2 / 2, schedule=sname, swapped_arguments=True)
                ctx.check("true mGH <= upper (exact oracle)", true2 / 2 <= ubs_, upper=ubs_, true=true2 / 2, schedule=sname, swapped_arguments=True)
            except Exception as e:
                ctx.exception("returns (lower, upper)", e, schedule=sname, swapped_arguments=True)
        if isinstance(s, int) and mode in ("exact", "trees", "witness", "rings") and rng.random() < 0.3:
            # the only randomness is the global NumPy generator: the same seed must reproduce the same pair of bounds
            try:
                out2, _ = call(ctx, A, B, mso, s)
                ctx.check("same NumPy seed => same bounds", (float(out2[0]), float(out2[1])) == (lb, ub), first=[lb, ub], second=out2, seed=s)
            except Exception as e:
                ctx.exception("same NumPy seed => same bounds", e)
    if true2 is not None and lbs and 2 * min(lbs) < true2 and mode in ("exact", "trees", "switch") and max(len(A), len(B)) <= 10:
        # loose lower bound: the search can never stop early on "upper == lower", so every sampled mapping of both directions is
        # consumed and the answer depends on the whole random stream - sweep further RNG states, both argument orders
        nsweep = 10 if ctx.tier == "quick" else 120
        ctx.note("rng-state sweeps on loose-bound pairs")
        for s in rng.integers(0, 2 ** 31, nsweep).tolist():
            P, Q = (A, B) if s % 2 else (B, A)
            try:
                out_s, _ = call(ctx, P, Q, mso, int(s))
                lb_s, ub_s = float(out_s[0]), float(out_s[1])
            except Exception as e:
                ctx.exception("returns (lower, upper)", e, schedule="seed-sweep")
                continue
            if s % 2:
                lbs.add(lb_s)
            ctx.check("lower <= true mGH (exact oracle)", lb_s <= true2 / 2, lower=lb_s, true=true2 / 2, schedule="seed-sweep", seed=int(s), swapped_arguments=not s % 2)
            ctx.check("true mGH <= upper (exact oracle)", true2 / 2 <= ub_s, upper=ub_s, true=true2 / 2, schedule="seed-sweep", seed=int(s), swapped_arguments=not s % 2)
    ctx.check("lower bound independent of the random stream", len(lbs) <= 1, lowers=sorted(lbs))
    ctx.note("wall_ms:" + mode, int(1000 * (_time.monotonic() - _t0)))
