"""C03 — exact landscape equals the k-th-largest-tent definition everywhere."""
import numpy as np

from .. import forms as vforms
from ..oracles import landscape as OL
from ..util import scale_of

ID = "C03"
CASES = {"quick": 8000, "thorough": 1500000}
MIN_NONTRIVIAL = {"quick": 3000, "thorough": 160000}
REQUIRED = ["depth 1 == max tent (complete PL comparison)", "every depth == k-th largest tent (complete PL comparison)",
            "critical points ordered, continuous", "functions vanish at both ends", "depths returned <= number of bars",
            "hom_deg selects the diagram", "one trailing infinite bar ignored"]
RULE = ("diagrams of 1-12 bars of positive length on small integer / half-integer grids (all coincidences exact in binary): "
        "nested, overlapping, disjoint, touching (d_i=b_j), equal births, equal deaths, repeated bars x2..x4, sweep collisions, "
        "random input order; plus random float bars; scales 1e-3..1e3; the same configurations far from the origin (offset 1e5-1e7 bar lengths) and at absolute scale 1e-9, and shifted so that coordinates are negative or exactly 0; hom_deg 0..2 with decoy diagrams; one case in 1009 has 500-700 bars (float, or a wide integer grid), compared on all of the implementation's breakpoints plus a 60000-point sample of the definition's. Both sides are "
        "piecewise linear, so they are compared on the union of their breakpoints (+ midpoints + outside points): a complete "
        "equality test per input and per depth. non-trivial = >=3 bars with at least one overlapping pair; distinct = digest "
        "of the sorted bars")
ASSUMPTIONS = ["tolerance 1e-9*(longest bar) + 8 eps*(largest coordinate)", "the guarded trace hook (PERSIM_VERIF=1) is used only to attribute mismatches to the "
               "known finding C03/dup-shortcut: a mismatch counts as that finding only if the shortcut fired at or above the "
               "first wrong depth AND an independent shortcut-free sweep (itself validated against the definition on the same "
               "input) has a genuinely repeated bar at the head of its residual list at that depth; depth 1 and the ordering "
               "clauses are always enforced"]
REQUIRED_NOTES = ["large-cases"]
TECHNIQUE = "runtime monitoring: postcondition monitor on PersLandscapeExact.critical_pairs (complete piecewise-linear comparison with the definition) + guarded trace hook for attribution"

EVENTS = []


def setup(ctx):
    global PLE, HOOK
    import persim.landscapes.exact as ex
    PLE = ex.PersLandscapeExact
    tr = getattr(ex, "_VERIF_TRACE", None)
    HOOK = tr is not None
    if HOOK:
        tr.append(lambda what, idx: EVENTS.append((what, idx)))
    else:
        ctx.note("hook-missing")


def gen_bars(rng):
    n = int(rng.choice([1, 2, 3, 3, 4, 4, 5, 6, 7, 8, 10, 12]))
    if rng.random() < 0.006:
        n = int(rng.choice([40, 127, 128, 129, 200]))        # a few large diagrams (sizes around 128)
    style = str(rng.choice(["grid", "grid", "half", "nested", "touching", "eqbirth", "eqdeath", "repeat", "collision",
                            "float", "disjoint"]))
    if style == "grid":
        g = int(rng.integers(3, 9))
        b = rng.integers(0, g, n).astype(float); d = b + rng.integers(1, g + 1, n)
    elif style == "half":
        b = rng.integers(0, 12, n) / 2.0; d = b + rng.integers(1, 13, n) / 2.0
    elif style == "nested":
        c = float(rng.integers(4, 9)); r = np.sort(rng.integers(1, 9, n))[::-1] / 2.0
        b = c - r; d = c + r + rng.integers(0, 2, n) * rng.integers(0, 3, n) / 2.0
    elif style == "touching":
        cuts = np.cumsum(rng.integers(1, 4, n + 1)).astype(float)
        b = cuts[:-1]; d = cuts[1:] + rng.integers(0, 2, n) * rng.integers(0, 3, n)
    elif style == "eqbirth":
        b = np.full(n, float(rng.integers(0, 3))); d = b + rng.integers(1, 8, n)
        if n > 2:
            b[-1] += 1; d[-1] += 2
    elif style == "eqdeath":
        d = np.full(n, float(rng.integers(6, 10))); b = d - rng.integers(1, 7, n)
        if n > 2:
            d[0] += 1
    elif style == "repeat":
        m = max(1, n // 2)
        bb = rng.integers(0, 6, m).astype(float); dd = bb + rng.integers(1, 6, m)
        idx = rng.integers(0, m, n)
        b, d = bb[idx], dd[idx]
    elif style == "collision":
        # (b,d),(b',d') overlapping with b<b'<d<d' produce the residual (b',d); include it (or near it) as an input bar
        b0 = float(rng.integers(0, 4)); d0 = b0 + float(rng.integers(3, 7))
        b1 = b0 + float(rng.integers(1, 3)); d1 = d0 + float(rng.integers(1, 4))
        base = [(b0, d0), (b1, d1), (b1, d0)]
        extra = [(float(x), float(x + y)) for x, y in zip(rng.integers(0, 6, max(0, n - 3)), rng.integers(1, 6, max(0, n - 3)))]
        arr = np.array(base + extra); b, d = arr[:, 0], arr[:, 1]
    elif style == "disjoint":
        cuts = np.cumsum(rng.integers(1, 4, 2 * n)).astype(float)
        b = cuts[0::2]; d = cuts[1::2]
    else:
        b = rng.random(n) * 4; d = b + rng.random(n) * 3 + 1e-3
    scale = float(rng.choice([1e-3, 0.125, 1, 1, 1, 8, 1e3])) if style != "float" else float(rng.choice([1e-3, 1, 1e3]))
    bars = np.column_stack([b, d]) * scale
    bars = bars[rng.permutation(len(bars))]
    return bars, style


def overlapping(bars):
    for i in range(len(bars)):
        for j in range(i + 1, len(bars)):
            if max(bars[i][0], bars[j][0]) < min(bars[i][1], bars[j][1]):
                return True
    return False


def classify(bars, first_bad, copies, tol):
    """known finding C03/dup-shortcut  <=>  the hook saw the repeated-bar shortcut fire, the shallowest wrong depth is at
    or below the shallowest copied depth, and the shortcut was *legitimately* triggered there: in a correct sweep the
    residual list at that depth really starts with a repeated bar (so a change that manufactures duplicates, or goes
    wrong before the first genuine duplicate, is not attributed to the finding)."""
    if first_bad is None or first_bad == 0 or not copies or first_bad < min(copies):
        return None
    ref_depths, heads = OL.sweep_reference([tuple(r) for r in bars])
    bad, _ = OL.compare_exact([tuple(r) for r in bars], ref_depths, tol)
    if bad is not None:
        raise AssertionError("reference sweep disagrees with the definition at depth %d" % (bad + 1))
    i0 = min(copies) - 1
    if i0 < len(heads) and heads[i0][1] >= 2:
        return "dup-shortcut"
    return None


def build(ctx, dgms, hom_deg):
    del EVENTS[:]
    ctx.ran()
    P = PLE(dgms=dgms, hom_deg=hom_deg)
    return P.critical_pairs, sorted(i for w, i in EVENTS if w == "dup-shortcut")


def tolerance(bars):
    """1e-9 of the longest bar plus the rounding of the coordinates themselves (never 1e-9 of the coordinates)"""
    b = np.asarray(bars, float)
    return 1e-9 * float(np.max(b[:, 1] - b[:, 0])) + 8 * np.finfo(float).eps * float(np.max(np.abs(b)))


def judge(ctx, bars, depths, copies, tag=""):
    tol = tolerance(bars)
    n = len(bars)
    problems = []
    for dp in depths:
        problems += OL.pl_shape_problems(dp, tol)
    ctx.check("critical points ordered, continuous" + tag, not problems, problems=problems[:3], depths=depths)
    ends_ok = all(len(dp) >= 2 and abs(float(dp[0][1])) <= tol and abs(float(dp[-1][1])) <= tol for dp in depths)
    ctx.check("functions vanish at both ends" + tag, ends_ok, depths=depths)
    ctx.check("depths returned <= number of bars" + tag, len(depths) <= n, returned=len(depths), bars=n)
    if problems and any("non-finite" in p for p in problems):
        return
    first_bad, wit = OL.compare_exact([tuple(r) for r in bars], depths, tol)
    ctx.check("depth 1 == max tent (complete PL comparison)" + tag, first_bad != 0, **wit)
    key = classify(bars, first_bad, copies, tol)
    if first_bad is not None and first_bad > 0:
        ctx.note("mismatch:with-shortcut" if copies else "mismatch:no-shortcut")
    ctx.check("every depth == k-th largest tent (complete PL comparison)" + tag, first_bad is None or first_bad == 0,
              key=key, shortcut_copies=copies, critical_pairs=depths, **wit)
    if copies:
        ctx.note("shortcut-fired")
        if first_bad is None:
            ctx.note("shortcut-fired-but-correct")


def far_or_tiny(rng, bars, style):
    """the same configuration far from the origin (lengths << coordinates) or at a tiny absolute scale: the landscape is
    translation- and scale-equivariant, tolerances written in absolute or coordinate-relative terms are not"""
    r = rng.random()
    if r < 0.10:
        unit = float(np.min(bars[:, 1] - bars[:, 0]))
        return bars + float(rng.choice([1e5, 1e6, 1e7, 1e9, 3e9, 1e10])) * unit, style + "+far"
    if r < 0.16:
        return bars * float(rng.choice([1e-9, 1e-7])) / max(float(np.max(np.abs(bars))), 1e-300), style + "+tiny"
    if r < 0.26:
        # coordinates of either sign: shift so that some birth or death is exactly 0, or everything is negative
        pivot = float(rng.choice(bars.ravel()))
        if rng.random() < 0.3:
            pivot = float(np.max(bars)) + float(rng.integers(0, 3)) * float(np.min(bars[:, 1] - bars[:, 0]))
        return bars - pivot, style + "+signed"
    return bars, style


def gen_large(rng):
    """500-700 bars (a few hundred points of a point cloud give as many): generic floats, or a wide integer grid where exact
    coincidences between births / deaths / sweep residuals still occur"""
    n = int(rng.integers(500, 701))
    if rng.random() < 0.6:
        b = rng.random(n) * 10; d = b + rng.random(n) * rng.choice([0.5, 3.0, 8.0]) + 1e-3
        style = "large-float"
    else:
        b = rng.integers(0, 4000, n).astype(float); d = b + rng.integers(1, 1500, n)
        style = "large-grid"
    bars = np.column_stack([b, d]) * float(rng.choice([1e-3, 1, 1, 1e3]))
    return bars[rng.permutation(n)], style


def run_case(ctx, k, rng):
    if k % 1009 == 11:
        bars, style = gen_large(rng)
        ctx.note("large-cases")
    else:
        bars, style = gen_bars(rng)
        bars, style = far_or_tiny(rng, bars, style)
    hom = int(rng.choice([0, 0, 1, 2]))
    dgms = [np.array([[0.0, 1.0], [0.5, 7.0]]) * (j + 1) for j in range(hom)] + [bars]
    if rng.random() < 0.3:
        dgms.append(np.array([[1.0, 2.0]]))
    ctx.begin(k, style, {"bars": bars, "hom_deg": hom})
    bars0 = bars.copy()             # pristine copy: every reference value is computed from it
    if len(bars) >= 3 and overlapping(bars):
        ctx.mark_nontrivial(sorted(map(tuple, bars.tolist())))
    try:
        depths, copies = build(ctx, dgms, hom)
    except Exception as e:
        ctx.exception("constructs", e)
        return
    ctx.check("constructs", isinstance(depths, list), got=type(depths).__name__)
    judge(ctx, bars0, depths, copies)
    if not np.array_equal(bars, bars0):
        bars = bars0.copy()         # (a change to the caller's array is C19's finding; keep judging this property on the real values)
    if rng.random() < 0.05:
        ib, fb, dn = vforms.near_limit_int_diagram(rng, int(rng.integers(1, 7)))
        ctx.set_payload({"bars": ib, "dtype": dn, "hom_deg": 0})
        try:
            dn_, cn_ = build(ctx, [ib if rng.random() < 0.6 else list(ib)], 0)
            judge(ctx, fb, dn_, cn_, tag=" [narrow integer dtype near its limits]")
            ctx.note("form:near-limit:" + dn)
        except Exception as e:
            ctx.exception("constructs [narrow integer dtype near its limits]", e, dtype=dn)
        ctx.set_payload({"bars": bars, "hom_deg": hom})
    if rng.random() < 0.08:
        # API history on a lazily built object (compute=False): accessors in any order, then the critical points are read. Whatever
        # an accessor does (return a depth function, raise), what critical_pairs finally holds must be the whole landscape.
        try:
            del EVENTS[:]
            ctx.ran()
            P = PLE(dgms=dgms, hom_deg=hom, compute=False)
            trail = []
            for _ in range(int(rng.integers(1, 4))):
                what = str(rng.choice(["by_depth", "getitem", "p_norm", "sup_norm", "compute", "neg", "add"]))
                trail.append(what)
                try:
                    if what == "by_depth":
                        P.compute_landscape_by_depth(int(rng.integers(0, 2)))
                    elif what == "getitem":
                        P[0]
                    elif what == "p_norm":
                        P.p_norm(p=2)
                    elif what == "sup_norm":
                        P.sup_norm()
                    elif what == "compute":
                        P.compute_landscape()
                    elif what == "neg":
                        -P
                    else:
                        P + P
                except Exception:
                    trail[-1] += "(raised)"
            P.compute_landscape()
            cl = sorted(i for w, i in EVENTS if w == "dup-shortcut")
            judge(ctx, bars0, P.critical_pairs, cl, tag=" [lazy object after accessor calls]")
            ctx.seen("lazy accessor trails", ",".join(trail))
        except Exception as e:
            ctx.exception("constructs [lazy object after accessor calls]", e)
    sub = int(rng.integers(0, 4))
    if sub == 0 and hom > 0:
        # the same bars as degree 0 must give the same landscape: hom_deg only selects
        try:
            d0, _ = build(ctx, [bars], 0)
            ctx.check("hom_deg selects the diagram", d0 == depths, with_decoys=depths, alone=d0)
        except Exception as e:
            ctx.exception("hom_deg selects the diagram", e)
    elif sub == 0:
        ctx.check("hom_deg selects the diagram", True)   # degree 0 with a trailing decoy diagram judged above
    elif sub == 1:
        try:
            withinf = np.vstack([bars, [[float(bars[:, 0].min()), np.inf]]])
            di, ci = build(ctx, [withinf], 0)
            first_bad, wit = OL.compare_exact([tuple(r) for r in bars], di, tolerance(bars))
            key = classify(bars, first_bad, ci, tolerance(bars))
            ctx.check("one trailing infinite bar ignored", first_bad is None, key=key, critical_pairs=di, **wit)
        except Exception as e:
            ctx.exception("one trailing infinite bar ignored", e)
    elif sub == 3 and np.all(bars == np.round(bars)) and np.max(np.abs(bars)) < 2 ** 40:
        # container / dtype of the input: integer array, nested list of python ints, float32 array of the same values
        narrow, ndt = vforms.as_int_dtype(rng, bars, narrow_bias=1.0)
        rows, rname = vforms.as_rows(rng, bars, dtype=(narrow.dtype if rng.random() < 0.6 else np.float64))     # list(dgm), tuple of tuples, ...
        for form, arg in (("int64", bars.astype(np.int64)), ("list", bars.astype(np.int64).tolist()), ("float32", bars.astype(np.float32)),
                          ("narrow integer", narrow), ("container of rows", rows)):
            if form == "float32" and (np.max(np.abs(bars)) >= 2 ** 20 or not np.array_equal(bars.astype(np.float32).astype(float), bars)):
                continue        # single precision: only judged where sums and half-sums of the coordinates are exact in 24 bits
            try:
                df, cf = build(ctx, [arg], 0)
                judge(ctx, bars, df, cf, tag=" [%s input]" % form)
                ctx.note("form:" + form)
            except Exception as e:
                ctx.exception("constructs [%s input]" % form, e)
    elif sub == 2 and rng.random() < 0.4:
        # memory layout of the input: Fortran order, np.array([births, deaths]).T, a strided window, read-only
        arg, nm = vforms.relayout(rng, bars)
        try:
            df, cf = build(ctx, [arg], 0)
            judge(ctx, bars, df, cf, tag=" [another memory layout]")
            ctx.note("form:layout:" + nm)
        except Exception as e:
            ctx.exception("constructs [another memory layout]", e, layout=nm)
    elif sub == 2:
        # input order is irrelevant
        try:
            d2, c2 = build(ctx, [bars[rng.permutation(len(bars))]], 0)
            judge(ctx, bars, d2, c2, tag=" [reordered input]")
        except Exception as e:
            ctx.exception("constructs", e)
