"""C09 — landscape arithmetic is pointwise and leaves operands untouched (inputs x histories)."""
import copy

import numpy as np

from ..oracles import landscape as OL
from .C03 import gen_bars

ID = "C09"
CASES = {"quick": 1600, "thorough": 250000}
MIN_NONTRIVIAL = {"quick": 500, "thorough": 34374}
REQUIRED = ["exact: result == pointwise combination (complete PL comparison)", "grid: result == pointwise combination",
            "operands unchanged after the step", "snap_pl == linear interpolation of every depth",
            "lc_approx == combination of re-sampled values", "average_approx == mean of re-sampled values",
            "mismatched hom_deg rejected", "mismatched grids rejected", "result keeps grid / degree"]
RULE = ("random histories (3-12 steps) over a shared pool of operands: exact landscapes from diagrams and from explicit "
        "continuous zero-ended critical points (coincident / interleaved abscissae, sign changes, zero function, different depth "
        "counts; one case in 61 uses depth functions of 350-900 breakpoints on a shared lattice), grid landscapes from diagrams and from arbitrary value arrays (int64, float32, float64 tables); steps drawn from + - neg *c c* /c (int and float "
        "scalars in {0,+-1,+-0.5,3,1e-3,1e3}), snap_pl, lc_approx, average_approx, and deliberately mismatched operands; results "
        "re-enter the pool; every pool member is snapshotted (deep copy) and re-compared after every step. non-trivial = history "
        "with >=3 steps containing a binary step whose operands have different depth counts or share an abscissa; distinct = "
        "digest of the history")
ASSUMPTIONS = ["exact class: both sides piecewise linear => compared on the union of all breakpoints, midpoints and outside "
               "points, tolerance 1e-9*max|ordinate|; grid class: array comparison at 1e-12*max|value|, zero padding for missing depths",
               "explicit critical points are continuous functions vanishing at both ends with strictly increasing abscissae "
               "(the representation's own contract); scalars are python int/float",
               "snap_pl outside the source grid's span is only judged where the source's edge value is 0 (statement does not say "
               "how a non-zero edge extends)"]
REQUIRED_NOTES = ["long-operand-cases", "far-offset-cases"]
TECHNIQUE = "runtime monitoring: call-history recorder with deep snapshots of every operand, checked offline against a pointwise reference model"

SCALARS = [0, 1, -1, 0.5, -0.5, 3, 1e-3, 1e3, 2, -2.5]


def setup(ctx):
    global PLE, PLA, snap_pl, lc_approx, average_approx
    from persim.landscapes import PersLandscapeApprox, PersLandscapeExact
    from persim.landscapes.tools import snap_pl as sp, lc_approx as lc, average_approx as av
    PLE, PLA, snap_pl, lc_approx, average_approx = PersLandscapeExact, PersLandscapeApprox, sp, lc, av


# ---- snapshots ---------------------------------------------------------------------------------------------
def snap_exact(P):
    cp = P.critical_pairs
    if not cp and len(P.dgms):        # lazily created and not evaluated yet: the function it denotes is its diagram's landscape
        twin = PLE(dgms=[np.array(P.dgms, dtype=float)], hom_deg=0)
        cp = twin.critical_pairs
    return {"kind": "exact", "hom": P.hom_deg, "cp": [[[float(x), float(y)] for x, y in dp] for dp in cp]}


def snap_grid(P):
    return {"kind": "grid", "hom": P.hom_deg, "start": P.start, "stop": P.stop, "num": P.num_steps,
            "values": np.array(P.values, dtype=float, copy=True), "dtype": str(np.asarray(P.values).dtype)}


def snapshot(P):
    return snap_exact(P) if isinstance(P, PLE) else snap_grid(P)


def same(s1, s2):
    if s1["kind"] != s2["kind"] or s1["hom"] != s2["hom"]:
        return False
    if s1["kind"] == "exact":
        return s1["cp"] == s2["cp"]
    return (s1["start"], s1["stop"], s1["num"]) == (s2["start"], s2["stop"], s2["num"]) and \
        s1["values"].shape == s2["values"].shape and np.array_equal(s1["values"], s2["values"])


# ---- reference model -----------------------------------------------------------------------------------------
def exact_eval(cp, ts):
    return [OL.pl_eval(dp, ts) for dp in cp]


def exact_points(*cps):
    xs = [float(p[0]) for cp in cps for dp in cp for p in dp]
    if not xs:
        return np.array([0.0, 1.0])
    u = np.unique(xs)
    mids = (u[:-1] + u[1:]) / 2
    span = max(u[-1] - u[0], 1.0)
    return np.unique(np.concatenate([u, mids, [u[0] - span, u[0] - 0.3 * span, u[-1] + 0.3 * span, u[-1] + span]]))


def combine(rows_list, coeffs, width):
    K = max([len(r) for r in rows_list] + [0])
    out = np.zeros((K, width))
    for rows, c in zip(rows_list, coeffs):
        for i, r in enumerate(rows):
            out[i] += c * np.asarray(r, float)
    return out


def lin_interp(xsrc, ysrc, xq):
    """plain linear interpolation inside [xsrc[0], xsrc[-1]] (searchsorted); NaN outside"""
    xsrc = np.asarray(xsrc, float); ysrc = np.asarray(ysrc, float); xq = np.asarray(xq, float)
    out = np.full(len(xq), np.nan)
    inside = (xq >= xsrc[0]) & (xq <= xsrc[-1])
    if len(xsrc) == 1:
        out[inside] = ysrc[0]
        return out
    j = np.clip(np.searchsorted(xsrc, xq[inside], side="right") - 1, 0, len(xsrc) - 2)
    x0, x1 = xsrc[j], xsrc[j + 1]
    w = np.where(x1 > x0, (xq[inside] - x0) / np.where(x1 > x0, x1 - x0, 1), 0.0)
    out[inside] = ysrc[j] * (1 - w) + ysrc[j + 1] * w
    return out


def resample(s, start, stop, num):
    """expected snap of grid snapshot s: (values, judged-mask)"""
    src = np.linspace(s["start"], s["stop"], s["num"])
    q = np.linspace(start, stop, num)
    vals = np.zeros((len(s["values"]), num)); mask = np.ones((len(s["values"]), num), bool)
    for i, row in enumerate(s["values"]):
        r = lin_interp(src, row, q)
        left, right = q < src[0], q > src[-1]
        r[left] = row[0]; r[right] = row[-1]
        mask[i, left] = row[0] == 0
        mask[i, right] = row[-1] == 0
        vals[i] = r
    return vals, mask


# ---- operand generators -----------------------------------------------------------------------------------------
def gen_cp(rng):
    """explicit critical points: continuous, zero at both ends, strictly increasing abscissae on a half-integer lattice so
    that abscissae of different operands coincide often"""
    depths = int(rng.integers(1, 4))
    cp = []
    for _ in range(depths):
        n = int(rng.integers(2, 7))
        xs = np.sort(rng.choice(np.arange(0, 16) / 2.0, size=n, replace=False))
        ys = rng.integers(-4, 5, n) / 2.0
        if rng.random() < 0.15:
            ys[:] = 0
        ys[0] = ys[-1] = 0.0
        cp.append([[float(x), float(y)] for x, y in zip(xs, ys)])
    return cp


def new_exact_long(rng):
    """depth functions with several hundred breakpoints each on a shared half-integer lattice (sublevel-set / cubical
    persistence of integer data gives such landscapes): long operands whose abscissae coincide often"""
    cp = []
    for _ in range(int(rng.integers(1, 3))):
        n = int(rng.integers(350, 901))
        xs = np.sort(rng.choice(np.arange(0, 2400) / 2.0, size=n, replace=False))
        ys = rng.integers(-6, 7, n) / 2.0
        ys[0] = ys[-1] = 0.0
        cp.append([[float(x), float(y)] for x, y in zip(xs, ys)])
    return PLE(critical_pairs=cp, hom_deg=0)


FAR = [0.0]        # per case: common offset of diagram-built exact operands (time stamps, elevations: values >> feature sizes)


def slope_bound(cp):
    m = 0.0
    for dp in cp:
        for (x0, y0), (x1, y1) in zip(dp, dp[1:]):
            if x1 > x0:
                m = max(m, abs(y1 - y0) / (x1 - x0))
    return m


def new_exact(rng):
    hom = int(rng.choice([0, 0, 0, 1]))
    if FAR[0]:
        bars, _ = gen_bars(rng)
        bars = bars[:6] / max(float(np.max(np.abs(bars))), 1e-300) * float(rng.choice([2.0, 10.0, 50.0])) + FAR[0]
        return PLE(dgms=[bars] * (hom + 1), hom_deg=hom, compute=bool(rng.random() < 0.67))
    if rng.random() < 0.5:
        bars, _ = gen_bars(rng)
        bars = bars[:6]
        if rng.random() < 0.25:
            # up to 12 bars on a decimal lattice (0.001 units) with lattice jitter: half-sums of such coordinates round differently
            # along different routes, so the sweep emits critical points whose abscissae coincide or differ by one ulp
            bars, _ = gen_bars(rng)
            bars = np.round(bars / max(float(np.max(np.abs(bars))), 1e-300) * float(rng.integers(8, 60))) * 0.001
            bars = bars + rng.integers(-1, 2, bars.shape) * 0.001 * float(rng.integers(1, 15))
            bars = bars[bars[:, 1] > bars[:, 0]]
            if len(bars) == 0:
                bars = np.array([[0.001, 0.004]])
        # a third of the diagram-built operands are created lazily (compute=False): nothing has evaluated them when they are
        # first used as an operand
        P = PLE(dgms=[bars] * (hom + 1), hom_deg=hom, compute=bool(rng.random() < 0.67))
    else:
        P = PLE(critical_pairs=gen_cp(rng), hom_deg=hom)
    return P


GRIDS = [(0.0, 8.0, 17), (0.0, 8.0, 9), (-1.0, 9.0, 21), (0.0, 8.0, 17), (2.0, 6.0, 5), (0.0, 10.0, 11), (0.0, 8.0, 16), (0.0, 8.0, 20),
         (0.0, 8.0, 24)]


def new_grid(rng):
    hom = int(rng.choice([0, 0, 0, 1]))
    start, stop, num = GRIDS[int(rng.integers(0, len(GRIDS)))]
    if rng.random() < 0.5:
        n = int(rng.integers(1, 6))
        b = rng.integers(0, 12, n) / 2.0 + max(start, 0); d = np.minimum(b + rng.integers(1, 10, n) / 2.0, stop)
        keep = d > b
        bars = np.column_stack([b, d])[keep]
        if len(bars):
            import io, contextlib
            with contextlib.redirect_stdout(io.StringIO()):
                P = PLA(start=start, stop=stop, num_steps=num, dgms=[bars] * (hom + 1), hom_deg=hom)
            if np.asarray(P.values).dtype.kind not in "US":
                return P
    K = int(rng.integers(1, 4))
    vals = rng.integers(-4, 5, (K, num)) / 2.0
    if rng.random() < 0.6:
        vals[:, 0] = 0; vals[:, -1] = 0
    # the samples may arrive in any numeric dtype: integer tables, single precision, double precision
    dt = str(rng.choice(["float64", "float64", "int64", "float32"]))
    if dt == "int64":
        vals = np.round(vals * 2).astype(np.int64)
    elif dt == "float32":
        vals = vals.astype(np.float32)
    return PLA(start=start, stop=stop, num_steps=num, values=vals, hom_deg=hom)


def magnitude(s):
    if s["kind"] == "exact":
        ys = [abs(p[1]) for dp in s["cp"] for p in dp]
        return max(ys) if ys else 0.0
    return float(np.max(np.abs(s["values"]))) if s["values"].size else 0.0


def run_case(ctx, k, rng):
    kind = "exact" if rng.random() < 0.5 else "grid"
    make = new_exact if kind == "exact" else new_grid
    long_case = k % 61 == 3
    FAR[0] = 0.0
    if long_case:
        kind, make = "exact", new_exact_long
        ctx.note("long-operand-cases")
    elif k % 17 == 2:
        # exact operands whose filtration values are huge compared with their features (Unix time stamps with features of seconds,
        # elevations in millimetres): float64 still resolves them; relative closeness tests on abscissae do not
        kind, make = "exact", new_exact
        FAR[0] = float(rng.choice([1e6, 1e8, 1.7e9, -2.5e9]))
        ctx.note("far-offset-cases")
    pool = [make(rng) for _ in range(int(rng.integers(3, 6)))]
    snaps = [snapshot(P) for P in pool]
    steps = int(rng.integers(3, 13)) if not long_case else int(rng.integers(3, 6))
    log = []
    ctx.begin(k, kind + ("/long" if long_case else ""), {"kind": kind, "initial": [jsonable_snap(s) for s in snaps] if not long_case else
                                                          "long operands: %s breakpoints" % [[len(dp) for dp in s["cp"]] for s in snaps], "log": log})
    interesting = False

    def verify_pool(after):
        for i, P in enumerate(pool):
            now = snapshot(P)
            if not ctx.check("operands unchanged after the step", same(now, snaps[i]), step=after, member=i):
                snaps[i] = now

    for stepno in range(steps):
        ops = ["add", "sub", "neg", "mul", "rmul", "div", "mismatch_hom"]
        if kind == "exact" and not long_case and rng.random() < 0.15:
            # the public attribute is rebound ("keep the top k depths", append a depth): from now on the object denotes that function
            t = int(rng.integers(0, len(pool)))
            cp_now = [[[float(x), float(y)] for x, y in dp] for dp in (pool[t].critical_pairs or snaps[t]["cp"])]
            if rng.random() < 0.6 and len(cp_now) >= 2:
                cp_new = cp_now[: int(rng.integers(1, len(cp_now)))]
            else:
                cp_new = cp_now + gen_cp(rng)[:1]
            pool[t].critical_pairs = cp_new
            snaps[t] = snapshot(pool[t])
            log.append({"op": "rebind critical_pairs", "i": t, "depths": len(cp_new)})
            ctx.note("critical_pairs rebound")
        if kind == "grid":
            ops += ["snap", "lc", "avg", "mismatch_grid", "snap", "lc"]
        op = str(rng.choice(ops))
        i, j = int(rng.integers(0, len(pool))), int(rng.integers(0, len(pool)))
        A, B, sa, sb = pool[i], pool[j], snaps[i], snaps[j]
        c = SCALARS[int(rng.integers(0, len(SCALARS)))]
        entry = {"op": op, "i": i, "j": j, "c": c}
        log.append(entry)
        res = None
        try:
            ctx.ran()
            if op in ("add", "sub"):
                compatible = sa["hom"] == sb["hom"] and (kind == "exact" or (sa["start"], sa["stop"], sa["num"]) == (sb["start"], sb["stop"], sb["num"]))
                if not compatible:
                    try:
                        r = A + B if op == "add" else A - B
                        which = "mismatched hom_deg rejected" if sa["hom"] != sb["hom"] else "mismatched grids rejected"
                        ctx.check(which, False, step=stepno, got=repr(r))
                    except Exception:
                        ctx.check("mismatched hom_deg rejected" if sa["hom"] != sb["hom"] else "mismatched grids rejected", True)
                    verify_pool(stepno)
                    continue
                res = A + B if op == "add" else A - B
                coeffs, ss = [1.0, 1.0 if op == "add" else -1.0], [sa, sb]
                if kind == "exact":
                    xa = {p[0] for dp in sa["cp"] for p in dp}; xb = {p[0] for dp in sb["cp"] for p in dp}
                    if len(sa["cp"]) != len(sb["cp"]) or (xa & xb):
                        interesting = True
                elif len(sa["values"]) != len(sb["values"]):
                    interesting = True
            elif op == "neg":
                res = -A; coeffs, ss = [-1.0], [sa]
            elif op == "mul":
                res = A * c; coeffs, ss = [float(c)], [sa]
            elif op == "rmul":
                res = c * A; coeffs, ss = [float(c)], [sa]
            elif op == "div":
                if c == 0:
                    try:
                        r = A / c
                        ctx.check("division by zero rejected", False, got=repr(r))
                    except Exception:
                        ctx.check("division by zero rejected", True)
                    verify_pool(stepno)
                    continue
                res = A / c; coeffs, ss = [1.0 / c], [sa]
            elif op == "mismatch_hom":
                other = make(rng)
                tries = 0
                while other.hom_deg == A.hom_deg and tries < 20:
                    other = make(rng); tries += 1
                if other.hom_deg == A.hom_deg:
                    continue
                if kind == "grid" and (other.start, other.stop, other.num_steps) != (A.start, A.stop, A.num_steps):
                    other = PLA(start=A.start, stop=A.stop, num_steps=A.num_steps, values=np.array(A.values, copy=True), hom_deg=1 - A.hom_deg)
                try:
                    r = A + other
                    ctx.check("mismatched hom_deg rejected", False, step=stepno, got=repr(r))
                except Exception:
                    ctx.check("mismatched hom_deg rejected", True)
                verify_pool(stepno)
                continue
            elif op == "mismatch_grid":
                g = GRIDS[int(rng.integers(0, len(GRIDS)))]
                if g == (A.start, A.stop, A.num_steps):
                    g = (A.start, A.stop + 1.0, A.num_steps)
                other = PLA(start=g[0], stop=g[1], num_steps=g[2], values=np.zeros((1, g[2])), hom_deg=A.hom_deg)
                try:
                    r = A + other
                    ctx.check("mismatched grids rejected", False, step=stepno, got=repr(r))
                except Exception:
                    ctx.check("mismatched grids rejected", True)
                verify_pool(stepno)
                continue
            elif op in ("snap", "lc", "avg"):
                m = int(rng.integers(1, 4))
                idx = [int(rng.integers(0, len(pool))) for _ in range(m)]
                hom0 = snaps[idx[0]]["hom"]
                mixed = sorted({snaps[t]["hom"] for t in idx})
                if op in ("lc", "avg") and len(mixed) > 1 and rng.random() < 0.7:
                    # landscapes of different homological degree in one list (H0 and H1 of one data set averaged by mistake): rejected,
                    # whether or not they share a grid and whether or not a grid is passed
                    kwm = {} if rng.random() < 0.6 else {"start": 0.0, "stop": 8.0, "num_steps": 9}
                    memb = [pool[t] for t in idx]
                    if rng.random() < 0.5:      # put them on one common grid first
                        g0 = memb[0]
                        memb = [PLA(start=g0.start, stop=g0.stop, num_steps=g0.num_steps, values=np.array(g0.values, float, copy=True) * (i + 1),
                                    hom_deg=snaps[t]["hom"]) for i, t in enumerate(idx)]
                    try:
                        r = lc_approx(memb, [1.0] * len(memb), **kwm) if op == "lc" else average_approx(memb, **kwm)
                        ctx.check("mismatched hom_deg rejected", False, step=stepno, got=repr(r), through=op, degrees=mixed)
                    except Exception:
                        ctx.check("mismatched hom_deg rejected", True)
                    verify_pool(stepno)
                    continue
                idx = [t for t in idx if snaps[t]["hom"] == hom0]
                members = [pool[t] for t in idx]; ms = [snaps[t] for t in idx]
                mode = int(rng.integers(0, 4))
                kw = {}
                if mode == 3:
                    # the members' own ends, fewer nodes: a count that divides the source's node count (24 -> 12, 8, 6, 4 ...), or one
                    # that divides its interval count (17 -> 9, 5), or neither
                    n0 = ms[0]["num"]
                    cands = [d for d in range(2, n0) if n0 % d == 0] + [d + 1 for d in range(1, n0 - 1) if (n0 - 1) % d == 0] + [max(2, n0 // 2 + 1)]
                    kw = {"start": min(s["start"] for s in ms), "stop": max(s["stop"] for s in ms), "num_steps": int(rng.choice(cands))}
                if mode == 1:
                    kw = {"start": min(s["start"] for s in ms) - 1.0, "stop": max(s["stop"] for s in ms) + 0.5, "num_steps": int(rng.integers(5, 40))}
                elif mode == 2:   # a grid inside every source grid
                    lo, hi = max(s["start"] for s in ms), min(s["stop"] for s in ms)
                    if hi > lo:
                        kw = {"start": lo + 0.25 * (hi - lo) * rng.random(), "stop": hi - 0.25 * (hi - lo) * rng.random(), "num_steps": int(rng.integers(3, 30))}
                gs = kw.get("start", min(s["start"] for s in ms)); ge = kw.get("stop", max(s["stop"] for s in ms))
                gn = kw.get("num_steps", max(s["num"] for s in ms))
                entry.update({"members": idx, "grid": [gs, ge, gn], "explicit_grid": bool(kw)})
                exp = [resample(s, gs, ge, gn) for s in ms]
                if op == "snap":
                    out = snap_pl(members, **kw)
                    ok = len(out) == len(members)
                    bad = None
                    for t, (P, (v, mask)) in enumerate(zip(out, exp)):
                        got = np.asarray(P.values, float)
                        tol = (1e-6 if ms[t].get("dtype") == "float32" else 1e-12) * max(1.0, magnitude(ms[t]))
                        if got.shape != v.shape or not np.all((np.abs(got - v) <= tol) | ~mask) or \
                                (P.start, P.stop, P.num_steps, P.hom_deg) != (gs, ge, gn, ms[t]["hom"]):
                            ok = False; bad = t
                    ctx.check("snap_pl == linear interpolation of every depth", ok, step=stepno, member=bad, grid=[gs, ge, gn])
                    if out:
                        res = out[int(rng.integers(0, len(out)))]
                    verify_pool(stepno)
                    if res is not None:
                        pool.append(res); snaps.append(snapshot(res))
                    continue
                coeffs = [SCALARS[int(rng.integers(0, len(SCALARS)))] for _ in members] if op == "lc" else [1.0 / len(members)] * len(members)
                entry["coeffs"] = coeffs
                res = lc_approx(members, coeffs, **kw) if op == "lc" else average_approx(members, **kw)
                want = combine([v for v, _ in exp], coeffs, gn)
                K = want.shape[0]
                mask = np.ones((K, gn), bool)
                for (v, mk) in exp:
                    mask[:len(mk)] &= mk
                got = np.asarray(res.values, float)
                tol = (1e-6 if any(s.get("dtype") == "float32" for s in ms) else 1e-12) * \
                    max(1.0, sum(abs(cc) * magnitude(s) for cc, s in zip(coeffs, ms))) * (len(ms) + 1)
                ok = got.shape == want.shape and np.all((np.abs(got - want) <= tol) | ~mask) and \
                    (res.start, res.stop, res.num_steps, res.hom_deg) == (gs, ge, gn, hom0)
                ctx.check("lc_approx == combination of re-sampled values" if op == "lc" else "average_approx == mean of re-sampled values",
                          ok, step=stepno, grid=[gs, ge, gn], coeffs=coeffs, got_shape=got.shape, want_shape=want.shape)
                verify_pool(stepno)
                pool.append(res); snaps.append(snapshot(res))
                continue
        except Exception as e:
            ctx.exception("operation returns", e, step=stepno, op=op)
            verify_pool(stepno)
            continue
        # ---- judge a pointwise result --------------------------------------------------------------------------
        rs = snapshot(res)
        mag = max(1e-300, sum(abs(cc) * magnitude(s) for cc, s in zip(coeffs, ss)))
        if kind == "exact":
            ts = exact_points(rs["cp"], *[s["cp"] for s in ss])
            want = combine([exact_eval(s["cp"], ts) for s in ss], coeffs, len(ts))
            got = combine([exact_eval(rs["cp"], ts)], [1.0], len(ts))
            K = max(len(want), len(got))
            W = np.zeros((K, len(ts))); G = np.zeros((K, len(ts)))
            W[:len(want)] = want; G[:len(got)] = got
            err = np.abs(W - G)
            xmax = max([abs(float(t)) for t in ts[2:-2]] + [0.0]) if len(ts) > 4 else 0.0
            # (rounding of the abscissae themselves, eps*|x|, times the steepest slope involved)
            xtol = 64 * np.finfo(float).eps * xmax * sum(abs(cc) * slope_bound(s["cp"]) for cc, s in zip(coeffs, ss))
            okk = bool(np.all(err <= 1e-9 * mag + xtol))
            wi = np.unravel_index(int(np.argmax(err)), err.shape) if err.size else (0, 0)
            ctx.check("exact: result == pointwise combination (complete PL comparison)", okk, step=stepno, op=op,
                      depth=int(wi[0]) + 1, t=float(ts[wi[1]]) if err.size else None,
                      got=float(G[wi]) if err.size else None, want=float(W[wi]) if err.size else None, result_cp=rs["cp"] if not long_case else None)
            ctx.check("result keeps grid / degree", rs["hom"] == ss[0]["hom"], hom=rs["hom"])
        else:
            want = combine([s["values"] for s in ss], coeffs, ss[0]["num"])
            got = rs["values"]
            rel = 1e-6 if any(s.get("dtype") == "float32" for s in ss) or rs.get("dtype") == "float32" else 1e-12
            okk = got.shape == want.shape and bool(np.all(np.abs(got - want) <= rel * mag))
            ctx.check("grid: result == pointwise combination", okk, step=stepno, op=op, got_shape=got.shape, want_shape=want.shape)
            ctx.check("result keeps grid / degree", (rs["start"], rs["stop"], rs["num"], rs["hom"]) ==
                      (ss[0]["start"], ss[0]["stop"], ss[0]["num"], ss[0]["hom"]), got=[rs["start"], rs["stop"], rs["num"], rs["hom"]])
        verify_pool(stepno)
        m = magnitude(rs)
        if m == 0 or 1e-9 < m < 1e9:
            pool.append(res); snaps.append(rs)
    if steps >= 3 and (interesting or kind == "grid"):
        ctx.mark_nontrivial(kind, jsonable_log(log), [jsonable_snap(s) for s in snaps[:3]],
                            sample={"kind": kind, "steps": log[:6], "first_operand": jsonable_snap(snaps[0])})


def jsonable_snap(s):
    if s["kind"] == "exact":
        return {"kind": "exact", "hom": s["hom"], "cp": s["cp"]}
    return {"kind": "grid", "hom": s["hom"], "grid": [s["start"], s["stop"], s["num"]], "values": s["values"].tolist()}


def jsonable_log(log):
    return [{k: v for k, v in e.items()} for e in log]
