"""C18 — transformers: fit+transform == fit_transform, and refits forget the past (histories x inputs)."""
import contextlib
import io

import numpy as np

from .. import forms as vforms
from .. import imgcfg
from ..util import arr_snapshot

ID = "C18"
CASES = {"quick": 3200, "thorough": 450000}
MIN_NONTRIVIAL = {"quick": 400, "thorough": 16740}
REQUIRED = ["imager: state after history == fresh estimator fitted on the last data", "imager: fit_transform == fit then transform (fresh twin)",
            "imager: transform repeatable, state untouched", "imager: collection mapped element by element, in order",
            "landscaper: state after history == fresh estimator fitted on the last data",
            "landscaper: fit_transform == fit then transform (fresh twin)", "landscaper: transform repeatable, state untouched"]
RULE = ("histories of 2-8 calls on one live estimator drawn from fit / transform / fit_transform (imager: interleaved pixel_size / "
        "birth_range / pers_range assignments = parameters the user fixes; landscaper: any subset of {start, stop} fixed in the "
        "constructor, hom_deg 0/1, flatten) over diagram collections (a quarter of them containing the same array object more than once, as a resample with replacement does) with different extents (second fit on narrower and on wider "
        "data). Reference model = a brand-new estimator built with the same user-fixed parameters and fitted on the last fit's "
        "data. non-trivial = history with >=2 fits on data of different extents followed by a transform; distinct = history digest")
ASSUMPTIONS = ["imager outputs compared at 1e-9*scale (each setter call re-pads the ranges by ~1e-17); landscaper outputs exactly",
               "'user-fixed' = constructor arguments and explicit attribute assignments; everything else is learned by fit",
               "imager data usually spans a positive extent in birth and persistence; 12% of the fits use data without extent along one axis, for which only agreement with a fresh estimator is demanded"]
TECHNIQUE = "runtime monitoring: call-history recorder on live estimators checked against a fresh-estimator reference model"


def setup(ctx):
    global Imager, Landscaper
    import persim
    Imager, Landscaper = persim.PersistenceImager, persim.PersistenceLandscaper


def quiet():
    return contextlib.redirect_stdout(io.StringIO())


# ---------------------------------------------------------------------------------------------------------------
def gen_dataset(rng, lo, hi, pmax, k=None, degenerate=None):
    """collection of diagrams (birth-death) with births in [lo,hi] and persistence in (0,pmax]; `degenerate` = "birth" /
    "pers" makes every point share that coordinate (zero extent along one axis: H0 diagrams all born at 0, ...)"""
    k = k or int(rng.integers(1, 5))
    if degenerate:
        out = []
        for _ in range(k):
            n = int(rng.integers(1, 5))
            b = np.full(n, lo) if degenerate == "birth" else rng.uniform(lo, hi, n)
            p = np.full(n, pmax) if degenerate == "pers" else rng.uniform(0.05 * pmax, pmax, n)
            out.append(np.column_stack([b, b + p]))
        return out
    out = []
    for _ in range(k):
        n = int(rng.integers(2, 12))
        b = rng.uniform(lo, hi, n); p = rng.uniform(0.05 * pmax, pmax, n)
        out.append(np.column_stack([b, b + p]))
    # pin the extent so that it really differs between datasets
    out[0][0] = [lo, lo + 0.05 * pmax]; out[0][1] = [hi, hi + pmax]
    if len(out) >= 2 and rng.random() < 0.25:
        # a bootstrap resample / `[d] * k`: the very same array object occurs more than once in the collection
        for _ in range(int(rng.integers(1, 3))):
            i, j = int(rng.integers(0, len(out))), int(rng.integers(1, len(out)))
            out[j] = out[i]
        if rng.random() < 0.3:
            out = out + [out[0]] * int(rng.integers(1, 3))
    return out


def gen_dataset_narrow(rng):
    """a collection in a narrow integer dtype whose values cover most of the dtype's range (int8 / uint8): what fit learns from
    it must be what it learns from the float64 arrays of the same values"""
    dts = (np.int8, np.uint8)
    dt = dts[int(rng.integers(0, 2))]
    out_i, out_f = [], []
    for _ in range(int(rng.integers(1, 4))):
        ia, fa, dn = vforms.near_limit_int_diagram(rng, int(rng.integers(2, 6)), dtypes=(dt,))
        out_i.append(ia); out_f.append(fa)
    return out_i, out_f, np.dtype(dt).name


def imager_public(P):
    return {"birth_range": tuple(P.birth_range), "pers_range": tuple(P.pers_range), "pixel_size": P.pixel_size,
            "resolution": tuple(P.resolution), "width": P.width, "height": P.height}


def close_pub(a, b, tol):
    if a["resolution"] != b["resolution"]:
        return False
    for key in ("birth_range", "pers_range"):
        if any(abs(x - y) > tol for x, y in zip(a[key], b[key])):
            return False
    return abs(a["pixel_size"] - b["pixel_size"]) <= tol and abs(a["width"] - b["width"]) <= tol and abs(a["height"] - b["height"]) <= tol


def attempt(f):
    try:
        return ("ok", f())
    except Exception as e:
        return ("raised", type(e).__name__)


def imgs_close(a, b, tol):
    if isinstance(a, list) != isinstance(b, list):
        return False
    if isinstance(a, list):
        return len(a) == len(b) and all(imgs_close(x, y, tol) for x, y in zip(a, b))
    a, b = np.asarray(a), np.asarray(b)
    return a.shape == b.shape and bool(np.all(np.abs(a - b) <= tol))


def imager_case(ctx, k, rng):
    ps0 = float(rng.choice([0.1, 0.2, 0.25, 0.3, 0.5, 1 / 3]))
    kkw, kdesc = imgcfg.gen_kernel(rng, ps0, high_corr=False)
    wkw, wfun, _ = imgcfg.gen_weight(rng)
    ctor = {"pixel_size": ps0, **kkw, **wkw}
    if rng.random() < 0.4:
        ctor["birth_range"] = (0.0, float(rng.integers(1, 4)))
    log = []
    ctx.begin(k, "imager", {"ctor": {"pixel_size": ps0, "kernel": kdesc}, "history": log})
    ctx.ran()
    P = Imager(**ctor)
    extents = [(0.0, 1.0, 1.0), (0.2, 0.6, 0.5), (-1.0, 3.0, 2.0), (0.0, 2.0, 4.0), (1.0, 1.5, 0.3)]
    if rng.random() < 0.08:
        # representation of the data a fit learns from: narrow integer arrays vs float64 arrays of the same values
        Xi, Xf, dn = gen_dataset_narrow(rng)
        ctx.set_payload({"ctor": {"pixel_size": 16.0}, "fit_data": Xi, "dtype": dn})
        try:
            ctx.ran(4)
            Pi, Pf = Imager(pixel_size=16.0, kernel_params={"sigma": 400.0}), Imager(pixel_size=16.0, kernel_params={"sigma": 400.0})
            oi, of = Pi.fit_transform(Xi, skew=True), Pf.fit_transform(Xf, skew=True)
            ctx.check("imager: fit on narrow integer arrays == fit on float64 arrays of the same values",
                      close_pub(imager_public(Pi), imager_public(Pf), 1e-9 * 300) and imgs_close(oi, of, 1e-9 * 300), dtype=dn,
                      int_fit=imager_public(Pi), float_fit=imager_public(Pf))
        except Exception as e:
            ctx.exception("imager: fit on narrow integer arrays == fit on float64 arrays of the same values", e, dtype=dn)
        ctx.set_payload({"ctor": {"pixel_size": ps0, "kernel": kdesc}, "history": log})
    last_fit = None          # (data, pixel_size at fit time, ops after)
    after = []
    fits_ext = []
    steps = int(rng.integers(2, 9))
    tolscale = 5.0
    did_transform_after_two_fits = False
    shallow = None          # (shallow copy of the fitted estimator, probe data, its images at copy time): a template from which per-class /
    #                      per-fold imagers are derived; what happens to the original afterwards must not reach the copy
    import copy as _copy
    try:
        for t in range(steps):
            if shallow is not None and rng.random() < 0.5:
                ctx.ran()
                again = shallow[0].transform(shallow[1], skew=True)
                ctx.check("imager: a shallow copy taken earlier still gives the images it gave then", imgs_close(again, shallow[2], 0.0) and
                          imager_public(shallow[0]) == shallow[3], step=t, copy_state=imager_public(shallow[0]), at_copy_time=shallow[3])
            if last_fit is not None and shallow is None and rng.random() < 0.25:
                Yp = gen_dataset(rng, *extents[int(rng.integers(0, len(extents)))], k=2)
                tw = _copy.copy(P)
                ctx.ran()
                shallow = (tw, Yp, tw.transform(Yp, skew=True), imager_public(tw))
                ctx.note("shallow copies of fitted imagers")
            op = str(rng.choice(["fit", "fit", "transform", "fit_transform", "set_pixel", "set_birth", "set_pers", "transform"]))
            if op in ("fit", "fit_transform"):
                e = extents[int(rng.integers(0, len(extents)))]
                deg = str(rng.choice(["birth", "pers"])) if rng.random() < 0.12 else None
                X = gen_dataset(rng, *e, degenerate=deg)
                if not deg and last_fit is not None and rng.random() < 0.3:
                    # the same list object as in the previous fit, refilled / updated in place
                    Xn, X = X, last_fit[0]
                    if rng.random() < 0.5:
                        X[:] = Xn
                    else:
                        X[0] = Xn[0]
                        X[-1] = X[-1] * 1.0; X[-1] *= float(rng.choice([0.5, 2.0]))
                    ctx.note("refits on the same container object with new content")
                log.append({"op": op, "extent": e, "n": len(X), "degenerate": deg})
                ctx.ran()
                if deg:
                    # data without extent along one axis: whatever the estimator does with it (zero-pixel axis, error), a
                    # fresh estimator given the same data must do the same - the past must not show
                    live = attempt(lambda: (P.fit(X, skew=True), imager_public(P))[1])
                    fresh = Imager(**{**ctor, "pixel_size": P.pixel_size})
                    ref = attempt(lambda: (fresh.fit(X, skew=True), imager_public(fresh))[1])
                    same = (live[0] == ref[0]) and (live[0] == "raised" and live[1] == ref[1] or
                                                     live[0] == "ok" and close_pub(live[1], ref[1], 1e-9 * tolscale))
                    ctx.check("imager: state after history == fresh estimator fitted on the last data", same, step=t,
                              degenerate=deg, live=live, fresh=ref)
                    if live[0] != "ok" or 0 in live[1]["resolution"]:
                        return          # a zero-pixel imager: nothing further to compare in this history
                    last_fit = (X, P.pixel_size); after = []; fits_ext.append(e)
                    continue
                if op == "fit":
                    P.fit(X, skew=True)
                else:
                    out = P.fit_transform(X, skew=True)
                    twin = Imager(**{**ctor, "pixel_size": P.pixel_size})
                    twin.fit(X, skew=True)
                    ref = twin.transform(X, skew=True)
                    ctx.ran(2)
                    ctx.check("imager: fit_transform == fit then transform (fresh twin)", imgs_close(out, ref, 1e-9 * tolscale),
                              step=t, live=imager_public(P), twin=imager_public(twin))
                last_fit = (X, P.pixel_size)
                after = []
                fits_ext.append(e)
            elif op == "transform":
                e = extents[int(rng.integers(0, len(extents)))]
                Y = gen_dataset(rng, *e, k=int(rng.integers(1, 7)))
                log.append({"op": op, "n": len(Y)})
                before = imager_public(P)
                ctx.ran(2)
                o1 = P.transform(Y, skew=True)
                mid = imager_public(P)
                o2 = P.transform(Y, skew=True)
                ctx.check("imager: transform repeatable, state untouched", imgs_close(o1, o2, 0.0) and before == mid == imager_public(P),
                          step=t, before=before, after=imager_public(P))
                singles = [P.transform(y, skew=True) for y in Y]
                ctx.ran(len(Y))
                ctx.check("imager: collection mapped element by element, in order", isinstance(o1, list) and len(o1) == len(Y) and
                          all(imgs_close(a, b, 0.0) for a, b in zip(o1, singles)), step=t, n=len(Y))
                if len(Y) >= 3 and rng.random() < 0.3:
                    # the same through the parallel branch (threads: no process start-up), any n_jobs
                    import joblib
                    nj = int(rng.choice([1, 2, 3]))
                    with joblib.parallel_backend("threading"):
                        op_ = P.transform(Y, skew=True, n_jobs=nj)
                    ctx.ran()
                    ctx.check("imager: collection mapped element by element, in order", isinstance(op_, list) and len(op_) == len(Y) and
                              all(imgs_close(a, b, 0.0) for a, b in zip(op_, singles)), step=t, n=len(Y), n_jobs=nj,
                              sizes=[len(y) for y in Y])
                if last_fit is not None:
                    fresh = Imager(**{**ctor, "pixel_size": last_fit[1]})
                    fresh.fit(last_fit[0], skew=True)
                    for name, val in after:
                        setattr(fresh, name, val)
                    ref = fresh.transform(Y, skew=True)
                    ctx.ran(2)
                    ok = close_pub(imager_public(P), imager_public(fresh), 1e-9 * tolscale) and imgs_close(o1, ref, 1e-9 * tolscale)
                    ctx.check("imager: state after history == fresh estimator fitted on the last data", ok, step=t,
                              live=imager_public(P), fresh=imager_public(fresh))
                    if len(set(fits_ext)) >= 2:
                        did_transform_after_two_fits = True
            else:
                if op == "set_pixel":
                    name, val = "pixel_size", float(rng.choice([0.1, 0.2, 0.25, 0.3, 0.5, 1 / 3, 0.15]))
                elif op == "set_birth":
                    lo = float(rng.choice([0.0, -1.0, 0.5])); name, val = "birth_range", (lo, lo + float(rng.choice([1.0, 2.0, 0.7, 3.1])))
                else:
                    lo = float(rng.choice([0.0, 0.1])); name, val = "pers_range", (lo, lo + float(rng.choice([1.0, 2.0, 0.7, 3.1])))
                log.append({"op": op, "value": val})
                ctx.ran()
                setattr(P, name, val)
                after.append((name, val))
    except Exception as e:
        ctx.exception("imager history runs", e, log=log)
        return
    if did_transform_after_two_fits:
        ctx.mark_nontrivial("imager", ps0, kdesc, log)


# ---------------------------------------------------------------------------------------------------------------
def gen_dgms(rng, lo, hi):
    """list of diagrams indexed by homological degree (what the landscaper takes)"""
    out = []
    for deg in range(2):
        n = int(rng.integers(2, 7))
        b = rng.integers(int(lo * 4), int(hi * 4), n) / 4.0
        d = np.minimum(b + rng.integers(1, 12, n) / 4.0, hi)
        keep = d > b
        arr = np.column_stack([b, d])[keep]
        arr = np.vstack([arr, [[lo, lo + (hi - lo) / 2], [lo + (hi - lo) / 4, hi]]])
        arr = arr[rng.permutation(len(arr))]
        if INTDATA[0]:
            arr = np.round(arr * 4).astype(rng.choice([np.int64, np.int32, np.int16, np.uint8]) if lo >= 0 else np.int64)
        out.append(arr)
    return out


INTDATA = [False]


def landscaper_case(ctx, k, rng):
    hom = int(rng.integers(0, 2))
    INTDATA[0] = bool(rng.random() < 0.25)       # this history works on integer-valued diagrams stored in an integer dtype
    fixed = {}
    if rng.random() < 0.3:
        fixed["start"] = float(rng.choice([-1.0, 0.0, 0.5]))
    if rng.random() < 0.3:
        fixed["stop"] = float(rng.choice([6.0, 9.0, 12.0]))
    ctor = {"hom_deg": hom, "num_steps": int(rng.choice([5, 9, 17, 40])), "flatten": bool(rng.integers(0, 2)), **fixed}
    log = []
    ctx.begin(k, "landscaper", {"ctor": ctor, "history": log})
    ctx.ran()
    L = Landscaper(**ctor)
    extents = [(0.0, 4.0), (1.0, 3.0), (0.0, 8.0), (2.0, 6.0), (0.5, 5.0)]
    last_fit = None
    fits_ext = []
    marked = False

    def pub(T):
        return {"start": T.start, "stop": T.stop, "num_steps": T.num_steps, "hom_deg": T.hom_deg, "flatten": T.flatten}

    def same_out(a, b):
        a, b = np.asarray(a), np.asarray(b)
        if a.dtype.kind in "US" or b.dtype.kind in "US":
            return a.dtype.kind == b.dtype.kind
        return a.shape == b.shape and np.array_equal(a, b)
    try:
        for t in range(int(rng.integers(2, 9))):
            op = str(rng.choice(["fit", "fit", "transform", "transform", "fit_transform", "assign"]))
            e = extents[int(rng.integers(0, len(extents)))]
            X = gen_dgms(rng, *e)
            reused = False
            if op in ("fit", "fit_transform") and last_fit is not None and rng.random() < 0.35:
                # a sliding window / in-place update: the very same container object as in the previous fit, with new content
                Y = gen_dgms(rng, *e)
                X = last_fit
                if rng.random() < 0.5:
                    X[hom] = Y[hom]
                else:
                    if X[hom].dtype.kind in "iu":
                        X[hom] *= int(rng.choice([2, 3])); X[hom] += int(rng.choice([0, 1]))
                    else:
                        X[hom] *= float(rng.choice([0.5, 2.0, 3.0])); X[hom] += float(rng.choice([0.0, 1.0]))
                e = (float(min(d[:, 0].min() for d in X)), float(max(d[:, 1].max() for d in X)))
                reused = True
                ctx.note("refits on the same container object with new content")
            log.append({"op": op, "extent": e, "same_container_as_last_fit": reused})
            with quiet():
                if op == "assign":
                    # the user fixes a grid limit after construction: from now on it is a user-fixed parameter
                    name = str(rng.choice(["start", "stop"]))
                    val = float(rng.choice([-1.0, 0.0, 0.5])) if name == "start" else float(rng.choice([6.0, 9.0, 12.0]))
                    if rng.random() < 0.3 and getattr(L, name) is not None:
                        val = float(getattr(L, name))      # numerically equal to what was learned, but now the user's choice
                        if INTDATA[0] and val == int(val):
                            val = int(val)                  # ... typed in as a plain int
                    log[-1].update({"param": name, "value": val})
                    setattr(L, name, val)
                    ctor[name] = val; fixed[name] = val
                    last_fit_needs = True
                elif op == "fit":
                    ctx.ran()
                    L.fit(X)
                    last_fit = X; fits_ext.append(e)
                elif op == "fit_transform":
                    ctx.ran(2)
                    out = L.fit_transform(X)
                    twin = Landscaper(**ctor)
                    ref = twin.fit(X).transform(X)
                    ctx.check("landscaper: fit_transform == fit then transform (fresh twin)", same_out(out, ref) and pub(L) == pub(twin),
                              step=t, live=pub(L), twin=pub(twin), data_extent=e)
                    last_fit = X; fits_ext.append(e)
                else:
                    before = pub(L)
                    if last_fit is None:
                        # never fitted: the grid comes from the transformed data itself; whatever it is, a brand-new estimator
                        # must give the same, and transform must leave the parameters as they were
                        ctx.ran(2)
                        o1 = L.transform(X)
                        ref = Landscaper(**ctor).transform(X)
                        ctx.check("landscaper: transform repeatable, state untouched", same_out(o1, ref) and before == pub(L),
                                  step=t, before=before, after=pub(L), unfitted=True)
                        continue
                    ctx.ran(2)
                    o1 = L.transform(X); mid = pub(L); o2 = L.transform(X)
                    ctx.check("landscaper: transform repeatable, state untouched", same_out(o1, o2) and before == mid == pub(L),
                              step=t, before=before, after=pub(L))
                    if last_fit is not None:
                        fresh = Landscaper(**ctor)
                        ctx.ran(2)
                        ref = fresh.fit(last_fit).transform(X)
                        ctx.check("landscaper: state after history == fresh estimator fitted on the last data",
                                  pub(L) == pub(fresh) and same_out(o1, ref), step=t, live=pub(L), fresh=pub(fresh), fits=fits_ext)
                        if len(set(fits_ext)) >= 2:
                            marked = True
    except Exception as e:
        ctx.exception("landscaper history runs", e, log=log)
        return
    if marked:
        ctx.mark_nontrivial("landscaper", ctor, log)


def run_case(ctx, k, rng):
    if rng.random() < 0.5:
        imager_case(ctx, k, rng)
    else:
        landscaper_case(ctx, k, rng)
