"""C10 — landscape p-norms and sup-norm equal the integrals they name."""
import math

import numpy as np

from ..util import scale_of
from .C03 import gen_bars
from .C09 import gen_cp

ID = "C10"
CASES = {"quick": 5000, "thorough": 900000}
MIN_NONTRIVIAL = {"quick": 1200, "thorough": 55036}
REQUIRED = ["p-norm == (sum of integrals of |f|^p)^(1/p)", "sup norm == max |ordinate|", "finite real", "homogeneous |c|",
            "triangle inequality", "||P-P|| == 0", "sup||L(D1)-L(D2)|| <= bottleneck(D1,D2)", "grid: p-norm == integral of the "
            "interpolated samples", "grid: sup norm == max |value|"]
RULE = ("exact landscapes from diagrams, from explicit critical points with sign changes, differences P-Q and linear combinations; "
        "grid landscapes from diagrams and from arbitrary value tables (float64, float32, int64, int32, nested lists of ints; also after -P / 2*P); one-signed, sign-crossing, nearly flat and exactly flat "
        "segments; p in {1,2,3,4,5,10} and real {1.5,2.5,pi,7.3}; scales 1e-3..1e3. non-trivial = the landscape has at least one "
        "sign-crossing segment; distinct = digest of (landscape, p)")
ASSUMPTIONS = ["oracle: closed-form integral of |linear|^p per segment written with absolute values (Gauss-Legendre on t^p when the "
               "closed form would cancel), cross-checked with scipy.integrate.quad on a sample",
               "compared on the p-th-power scale with relative tolerance 1e-9 (no allowance for ill-conditioned formulas: nearly flat "
               "segments, as produced by averaging landscapes, are part of the domain)",
               "p <= 20 and |y|^(p+1) inside double range: larger p is an arithmetic-range question, not this property",
               "the bottleneck-stability clause is only judged when the trace hook reports no repeated-bar shortcut (C03 finding)"]
REQUIRED_NOTES = ["large-cases"]
TECHNIQUE = "runtime monitoring: postcondition + metamorphic monitor on p_norm / sup_norm with a closed-form integral oracle"

PS = [1, 2, 2, 3, 4, 5, 10, 1.5, 2.5, math.pi, 7.3]
EVENTS = []
_GL = np.polynomial.legendre.leggauss(12)


def setup(ctx):
    global PLE, PLA, bottleneck
    import persim
    import persim.landscapes.exact as ex
    from persim.landscapes import PersLandscapeApprox, PersLandscapeExact
    PLE, PLA, bottleneck = PersLandscapeExact, PersLandscapeApprox, persim.bottleneck
    tr = getattr(ex, "_VERIF_TRACE", None)
    if tr is not None:
        tr.append(lambda what, idx: EVENTS.append(idx))


def seg_integral(x0, y0, x1, y1, p):
    """integral of |linear|^p over [x0,x1]"""
    dx = x1 - x0
    a, b = abs(y0), abs(y1)
    if dx <= 0:
        return 0.0, 0.0
    if (y0 < 0 < y1) or (y1 < 0 < y0):
        val = dx * (a ** (p + 1) + b ** (p + 1)) / ((p + 1) * (a + b))
    elif a == b:
        val = a ** p * dx
    else:
        hi, lo = max(a, b), min(a, b)
        if hi - lo <= 0.1 * hi:       # closed form would cancel: 12-point Gauss-Legendre of t^p on [lo, hi]
            t = 0.5 * (hi + lo) + 0.5 * (hi - lo) * _GL[0]
            val = dx * float(np.sum(_GL[1] * t ** p)) / 2.0
        else:
            val = dx * (hi ** (p + 1) - lo ** (p + 1)) / ((p + 1) * (hi - lo))
    return val, 0.0


def ref_pnorm_pow(depths, p):
    tot, tol = 0.0, 0.0
    crossing = False
    for dp in depths:
        for (x0, y0), (x1, y1) in zip(dp, dp[1:]):
            v, t = seg_integral(float(x0), float(y0), float(x1), float(y1), p)
            tot += v; tol += t
            if (y0 < 0 < y1) or (y1 < 0 < y0):
                crossing = True
    return tot, tol, crossing


def ref_sup(depths):
    ys = [abs(float(y)) for dp in depths for _, y in dp]
    return max(ys) if ys else 0.0


def check_norm(ctx, P, depths, p, tag):
    """P: landscape object, depths: list of lists of (x,y) describing the functions it represents"""
    want, tol, crossing = ref_pnorm_pow(depths, p)
    ctx.ran()
    try:
        with ctx.fp_sensor():
            got = P.p_norm(p=p)
    except Exception as e:
        ctx.exception("finite real", e, p=p, tag=tag)
        return None, crossing
    isreal = isinstance(got, (int, float, np.floating)) and not isinstance(got, complex) and math.isfinite(got)
    if not ctx.check("finite real", isreal, key=None, got=repr(got), p=p, tag=tag, has_sign_crossing=crossing):
        return None, crossing
    got = float(got)
    name = "p-norm == (sum of integrals of |f|^p)^(1/p)" if tag == "exact" else "grid: p-norm == integral of the interpolated samples"
    if p > 20:
        # very large finite p: a relative error e of the norm is p*e on the p-th-power scale, so these are judged on the norm scale
        wn = want ** (1.0 / p) if want > 0 else 0.0
        ctx.check(name, abs(got - wn) <= 1e-8 * wn + 1e-300, got=got, want=wn, p=p, has_sign_crossing=crossing, large_p=True)
    else:
        ctx.check(name, abs(got ** p - want) <= 1e-9 * want + tol + 1e-300, got=got, want=want ** (1.0 / p) if want > 0 else 0.0, p=p,
                  has_sign_crossing=crossing)
    return got, crossing


def exact_depths(P):
    return [[(float(x), float(y)) for x, y in dp] for dp in P.critical_pairs]


def grid_depths(P):
    xs = np.linspace(P.start, P.stop, P.num_steps)
    return [list(zip(xs.tolist(), np.asarray(row, float).tolist())) for row in np.asarray(P.values)]


def make_exact(rng):
    """returns (P, description)"""
    style = str(rng.choice(["diagram", "explicit", "difference", "combo", "nearflat", "flat", "average", "average"]))
    if style == "diagram":
        bars, _ = gen_bars(rng)
        return PLE(dgms=[bars], hom_deg=0), style, {"bars": bars}
    if style == "explicit":
        cp = gen_cp(rng)
        s = float(rng.choice([1e-3, 1, 1, 1e3]))
        cp = [[[x * s, y * s] for x, y in dp] for dp in cp]
        return PLE(critical_pairs=cp, hom_deg=0), style, {"cp": cp}
    if style in ("difference", "combo"):
        b1, _ = gen_bars(rng); b2, _ = gen_bars(rng)
        s = scale_of(b1) / scale_of(b2)
        b2 = b2 * s
        if rng.random() < 0.3:
            # the two diagrams share their longest bars: the top depths of the difference vanish identically, deeper ones do not
            order = np.argsort(-(b1[:, 1] - b1[:, 0]))
            keep = b1[order[: max(1, len(b1) // 2)]]
            extra = b1[order[len(keep):]] + rng.integers(-1, 2, (len(b1) - len(keep), 2)) * 0.25 * scale_of(b1) / 8
            extra = extra[extra[:, 1] > extra[:, 0]] if len(extra) else extra
            b2 = np.vstack([keep, extra]) if len(extra) else np.vstack([keep, keep[:1] * 0.5 + 0.25 * keep[:1, ::-1]])
        P1, P2 = PLE(dgms=[b1], hom_deg=0), PLE(dgms=[b2], hom_deg=0)
        if style == "difference":
            return P1 - P2, style, {"b1": b1, "b2": b2}
        c1, c2 = float(rng.choice([1, -1, 0.5, 2, 3])), float(rng.choice([1, -1, -0.5, 2, -3]))
        return c1 * P1 + c2 * P2, style, {"b1": b1, "b2": b2, "c": [c1, c2]}
    if style == "average":
        # averages / thirds of sums: slopes cancel up to rounding => segments that are flat up to a few ulps
        Ls = []
        descr = []
        for _ in range(3):
            n = int(rng.integers(1, 6))
            b = rng.random(n) * 4; d = b + rng.random(n) * 3 + 0.01
            descr.append(np.column_stack([b, d]))
            Ls.append(PLE(dgms=[descr[-1]], hom_deg=0))
        A = (Ls[0] + Ls[1] + Ls[2]) / 3.0
        if rng.random() < 0.5:
            A = A - Ls[0] * 0.3333333333333333
        return A, style, {"bars": descr}
    if style == "nearflat":
        n = int(rng.integers(3, 7))
        xs = np.cumsum(rng.integers(1, 4, n)).astype(float)
        base = float(rng.choice([1.0, -1.0, 0.5]))
        ys = base * (1 + rng.integers(-3, 4, n) * float(rng.choice([1e-12, 1e-9, 1e-6])))
        pts = [[xs[0] - 1, 0.0]] + [[float(x), float(y)] for x, y in zip(xs, ys)] + [[xs[-1] + 1, 0.0]]
        return PLE(critical_pairs=[pts], hom_deg=0), style, {"cp": [pts]}
    n = int(rng.integers(2, 6))
    xs = np.cumsum(rng.integers(1, 4, n + 2)).astype(float)
    h = float(rng.choice([1.0, -1.0, 2.5, -0.5]))
    pts = [[xs[0], 0.0]] + [[float(x), h] for x in xs[1:-1]] + [[xs[-1], 0.0]]
    return PLE(critical_pairs=[pts], hom_deg=0), style, {"cp": [pts]}


def run_case(ctx, k, rng):
    p = PS[int(rng.integers(0, len(PS)))]
    which = "exact" if rng.random() < 0.65 else "grid"
    if which == "exact":
        try:
            del EVENTS[:]
            P, style, desc = make_exact(rng)
            fired = bool(EVENTS)
        except Exception as e:
            ctx.begin(k, "exact/construct", None)
            ctx.exception("operand constructs", e)
            return
        depths = exact_depths(P)
        ys_ = [abs(y) for dp in depths for _, y in dp if y != 0]
        if ys_ and 0.05 <= min(ys_) and max(ys_) <= 8 and rng.random() < 0.15:
            p = float(rng.choice([151, 200, 256.5, 300, 120]))      # finite, far beyond the usual: still the p-th root of the integral
            ctx.note("very large p")
        ctx.begin(k, "exact/" + style, {"critical_pairs": depths, "p": p, "how": desc})
        got, crossing = check_norm(ctx, P, depths, p, "exact")
        if crossing:
            ctx.mark_nontrivial(depths, p)
        try:
            ctx.ran()
            s = float(P.sup_norm())
            ctx.check("sup norm == max |ordinate|", s == ref_sup(depths), got=s, want=ref_sup(depths))
        except Exception as e:
            ctx.exception("sup norm == max |ordinate|", e)
        if got is None or p > 20:
            return          # (very large p: only the value itself is judged; the relations below involve operands of other magnitudes)
        sub = int(rng.integers(0, 4))
        try:
            if sub == 0:
                c = float(rng.choice([-1, 2, -0.5, 3, 1e-2, -7]))
                ctx.ran()
                g2 = float((c * P).p_norm(p=p))
                ctx.check("homogeneous |c|", abs(g2 - abs(c) * got) <= 1e-9 * abs(c) * got + 1e-300, got=g2, want=abs(c) * got, c=c, p=p)
            elif sub == 1:
                Q, _, qd = make_exact(rng)
                ctx.ran(2)
                nq = float(Q.p_norm(p=p)); ns = float((P + Q).p_norm(p=p))
                # the sum is rebuilt from slopes along the union of both operands' abscissae: rounding of those abscissae (eps*|x|,
                # times the slopes) is carried along the whole support. It is negligible when the operands live at comparable
                # abscissa scales and dominates when they differ by many orders of magnitude - the law is judged in the former case.
                xs_p = [abs(x) for dp in depths for x, _ in dp] or [0.0]
                xs_q = [abs(x) for dp in exact_depths(Q) for x, _ in dp] or [0.0]
                lo_, hi_ = sorted([max(xs_p), max(xs_q)])
                if hi_ <= 1e3 * max(lo_, 1e-300):
                    ctx.check("triangle inequality", ns <= (got + nq) * (1 + 1e-9) + 1e-300, sum=ns, a=got, b=nq, p=p, other=exact_depths(Q))
                else:
                    ctx.note("triangle clause skipped: operands at abscissa scales more than 1e3 apart")
            elif sub == 2:
                ctx.ran()
                z = float((P - P).p_norm(p=p))
                zs = float((P - P).sup_norm())
                ctx.check("||P-P|| == 0", abs(z) <= 1e-9 * got and zs <= 1e-9 * ref_sup(depths), got=z, sup=zs, p=p)
            else:
                b1, _ = gen_bars(rng); b2 = b1 + rng.integers(-1, 2, b1.shape) * scale_of(b1) * float(rng.choice([0.01, 0.1, 0.25]))
                keep = b2[:, 1] > b2[:, 0]
                b2 = b2[keep] if keep.any() else b1
                if rng.random() < 0.4:
                    b2, _ = gen_bars(rng)
                    b2 = b2 * scale_of(b1) / scale_of(b2)
                del EVENTS[:]
                ctx.ran(3)
                L1, L2 = PLE(dgms=[b1], hom_deg=0), PLE(dgms=[b2], hom_deg=0)
                if not EVENTS:
                    sn = float((L1 - L2).sup_norm())
                    bn = float(bottleneck(b1, b2))
                    ctx.set_payload({"D1": b1, "D2": b2})
                    ctx.check("sup||L(D1)-L(D2)|| <= bottleneck(D1,D2)", sn <= bn + 1e-9 * scale_of(b1, b2), sup=sn, bottleneck=bn)
                else:
                    ctx.note("stability clause skipped: shortcut fired")
        except Exception as e:
            ctx.exception("related call returns", e, sub=sub, p=p)
    else:
        num = int(rng.choice([5, 9, 17, 33]))
        if k % 89 == 7:
            num = int(rng.choice([4097, 5000, 8193, 10001, 20000]))      # fine grids: thousands of samples per depth
            ctx.note("large-cases")
        start, stop = float(rng.integers(-3, 3)), float(rng.integers(4, 12))
        style = str(rng.choice(["values", "diagram", "difference", "dgms+values", "centred"]))
        try:
            import io, contextlib
            with contextlib.redirect_stdout(io.StringIO()):
                if style == "values":
                    K = int(rng.integers(1, 4))
                    vals = rng.integers(-4, 5, (K, num)) / 2.0 * float(rng.choice([1e-3, 1, 1, 1e3]))
                    if rng.random() < 0.3:
                        vals[:, :] = vals[:, :1]
                    # the table may arrive in any numeric dtype or as nested lists (toy examples are typed in as integers)
                    form = str(rng.choice(["float64", "float64", "int64", "int32", "float32", "list-of-int"]))
                    if form in ("int64", "int32", "list-of-int"):
                        vals = rng.integers(-4, 5, (K, num)) * int(rng.choice([1, 1, 3, 100]))
                        if rng.random() < 0.3:
                            vals[:, :] = vals[:, :1]
                        vals = vals.astype(np.int32) if form == "int32" else (vals.tolist() if form == "list-of-int" else vals.astype(np.int64))
                    elif form == "float32":
                        vals = (rng.integers(-4, 5, (K, num)) / 2.0).astype(np.float32)
                    style = "values:" + form
                    ctx.note("value-table form:" + form)
                    P = PLA(start=start, stop=stop, num_steps=num, values=np.array(vals) if form != "list-of-int" or rng.random() < 0.5 else np.array(vals, dtype=int), hom_deg=0)
                    if rng.random() < 0.3 and form != "float64":
                        P = -P if rng.random() < 0.5 else P * 2          # the dtype survives arithmetic
                elif style in ("dgms+values", "centred"):
                    # an object that still carries its diagram but whose samples take both signs: the documented constructor form with
                    # dgms (fixing the grid) and values, or a diagram-built landscape centred in place (sample minus mean)
                    n = int(rng.integers(1, 6))
                    b = rng.uniform(max(start, 0), stop - 1, n); d = np.minimum(b + rng.uniform(0.5, 5, n), stop)
                    bars_ = np.column_stack([b, d])
                    if style == "dgms+values":
                        K = int(rng.integers(1, 4))
                        vals = rng.integers(-4, 5, (K, num)) / 2.0 + rng.normal(0, 0.1, (K, num)) * float(rng.integers(0, 2))
                        P = PLA(dgms=[bars_], values=vals, num_steps=num, hom_deg=0, start=(None if rng.random() < 0.5 else start),
                                stop=(None if rng.random() < 0.5 else stop))
                    else:
                        P = PLA(start=start, stop=stop, num_steps=num, dgms=[bars_], hom_deg=0)
                        if np.asarray(P.values).dtype.kind in "US":
                            return
                        c = float(np.mean(P.values)) if rng.random() < 0.5 else float(np.max(P.values)) * float(rng.uniform(0.2, 0.8))
                        if rng.random() < 0.5:
                            P.values -= c
                        else:
                            P.values = P.values - c
                else:
                    def mk():
                        while True:     # a grid without interior node stores a string sentinel: not an operand
                            n = int(rng.integers(1, 6))
                            b = rng.uniform(max(start, 0), stop - 1, n); d = np.minimum(b + rng.uniform(0.5, 5, n), stop)
                            Q = PLA(start=start, stop=stop, num_steps=num, dgms=[np.column_stack([b, d])], hom_deg=0)
                            if np.asarray(Q.values).dtype.kind not in "US":
                                return Q
                    P = mk()
                    if style == "difference":
                        P = P - mk()
                    if np.asarray(P.values).dtype.kind in "US":
                        return
        except Exception as e:
            ctx.begin(k, "grid/construct", None)
            ctx.exception("operand constructs", e)
            return
        depths = grid_depths(P)
        ctx.begin(k, "grid/" + style, {"grid": [start, stop, num], "values": np.asarray(P.values), "p": p})
        got, crossing = check_norm(ctx, P, depths, p, "grid")
        if crossing:
            ctx.mark_nontrivial(depths, p)
        try:
            ctx.ran()
            s = float(P.sup_norm())
            ctx.check("grid: sup norm == max |value|", s == float(np.max(np.abs(np.asarray(P.values, float)))), got=s)
        except Exception as e:
            ctx.exception("grid: sup norm == max |value|", e)
        if got is not None and rng.random() < 0.5:
            try:
                c = float(rng.choice([-1, 2, -0.5, 3]))
                ctx.ran()
                g2 = float((c * P).p_norm(p=p))
                ctx.check("homogeneous |c|", abs(g2 - abs(c) * got) <= 1e-9 * abs(c) * got + 1e-300, got=g2, want=abs(c) * got, c=c, p=p)
            except Exception as e:
                ctx.exception("related call returns", e, p=p)
