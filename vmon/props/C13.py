"""C13 — Gaussian / uniform kernels are valid, accurate cumulative distribution functions."""
import math
import warnings

import numpy as np
from scipy.integrate import quad
from scipy.special import ndtr

ID = "C13"
CASES = {"quick": 1500, "thorough": 450000}
MIN_NONTRIVIAL = {"quick": 500, "thorough": 52272}
BR = ["|r|<0.3", "0.3<=|r|<0.75", "0.75<=|r|<0.925", "|r|>=0.925"]
REQUIRED = ["agrees with reference bivariate normal CDF to 1e-7 [%s]" % b for b in BR] + [
    "values in [0,1]", "non-decreasing in each argument", "every rectangle has non-negative mass", "tails tend to 0 and 1",
    "marginals recovered far in the upper tail", "zero covariance => product of marginals", "norm_cdf == standard normal CDF",
    "uniform == CDF of the uniform box"]
RULE = ("one case = one (mean, variances, correlation) configuration evaluated on sorted grids of points near the mean, on the "
        "ridges h=k and h=-k and in the far tails (|z| up to 40, 200, 1e3, 1e4): r on both sides of every branch threshold +-{0.3,0.75,0.925} "
        "+-{0,1e-12,1e-6,1e-3} and +-{0,0.1,0.5,0.9,0.95,0.99,0.999,1-1e-6,1-1e-9,1-1e-12}; variances 1e-6..1e6 (and rescaled by 1e-14..1e12), unequal; means of "
        "either sign; called through gaussian (dispatch), bvn_cdf and sbvn_cdf. non-trivial = |r|>=0.3 with evaluation points "
        "within 6 sigma of the mean; distinct = digest of the configuration; every branch of the algorithm has its own clause "
        "counter")
ASSUMPTIONS = ["two references sharing nothing with Genz's algorithm: Plackett's identity Phi2(h,k;r)=Phi(h)Phi(k)+(1/2pi) int_0^asin r "
               "exp(-(h^2+k^2-2hk sin t)/(2cos^2 t))dt and the conditional form int_-inf^h phi(x) Phi((k-rx)/sqrt(1-r^2))dx, both by "
               "scipy.integrate.quad (epsabs 1e-13); a point where they disagree by >1e-10 is counted as oracle-inconclusive, not judged",
               "reference clause for |r|<=1-1e-6; structural clauses (range, monotonicity, rectangle mass, tails, marginals) up to 1-1e-12",
               "epsilon 1e-9 for the structural clauses (rounding residues of 1e-45 are not violations); 1e-7 from the statement for accuracy"]
REQUIRED_NOTES = ["large-cases", "far-mean-cases"]
TECHNIQUE = "runtime monitoring: postcondition monitor on the kernel CDFs with two quadrature references and structural CDF invariants on sorted grids"

EPS = 1e-9


def setup(ctx):
    global K
    import persim.images_kernels as K  # noqa


def phi2_plackett(h, k, r):
    f = lambda t: math.exp(-(h * h + k * k - 2 * h * k * math.sin(t)) / (2 * math.cos(t) ** 2))
    a = math.asin(r)
    with warnings.catch_warnings():
        warnings.simplefilter("ignore")
        v, _ = quad(f, 0.0, a, epsabs=1e-14, epsrel=1e-13, limit=400)
    return float(ndtr(h) * ndtr(k) + v / (2 * math.pi))


def phi2_conditional(h, k, r):
    s = math.sqrt((1 - r) * (1 + r))
    f = lambda x: math.exp(-0.5 * x * x) / math.sqrt(2 * math.pi) * float(ndtr((k - r * x) / s))
    lo = -40.0
    if h <= lo:
        return 0.0
    pts = []
    if r != 0:
        c = k / r
        for q in (c - 8 * s / abs(r), c, c + 8 * s / abs(r)):
            if lo < q < h:
                pts.append(q)
    for q in (-8.0, 0.0, 8.0):
        if lo < q < h:
            pts.append(q)
    with warnings.catch_warnings():
        warnings.simplefilter("ignore")
        v, _ = quad(f, lo, min(h, 40.0), epsabs=1e-14, epsrel=1e-13, limit=400, points=sorted(set(pts)) or None)
    return float(v)


R_BASE = [0.0, 0.1, 0.5, 0.9, 0.95, 0.99, 0.999, 1 - 1e-6, 1 - 1e-9, 1 - 1e-12]
R_THR = [t + d for t in (0.3, 0.75, 0.925) for d in (0, 1e-12, -1e-12, 1e-6, -1e-6, 1e-3, -1e-3)]


def branch(r):
    a = abs(r)
    return BR[0] if a < 0.3 else BR[1] if a < 0.75 else BR[2] if a < 0.925 else BR[3]


def run_case(ctx, k, rng):
    mode = int(rng.integers(0, 10))
    if mode == 9:
        return run_uniform_and_norm(ctx, k, rng)
    r = float(rng.choice(R_THR if rng.random() < 0.5 else R_BASE))
    if rng.random() < 0.15:
        r = float(rng.uniform(-0.9999, 0.9999))
    if rng.random() < 0.5:
        r = -r
    vx, vy = (float(10.0 ** rng.uniform(-6, 6)) if rng.random() < 0.3 else float(rng.choice([0.25, 1.0, 1.0, 2.0, 9.0])) for _ in range(2))
    if rng.random() < 0.12:      # covariance entries far below / above any absolute tolerance (1e-8, 1e-5 ...)
        f = float(10.0 ** rng.choice([-14, -12, -10, -9, 9, 12]))
        vx, vy = vx * f, vy * f
    sx, sy = math.sqrt(vx), math.sqrt(vy)
    mx, my = float(rng.normal(0, 3)) * sx, float(rng.normal(0, 3)) * sy
    if rng.random() < 0.12:
        # a narrow kernel far from the origin (time stamps, elevations): |mean| / sd of 1e6 ... 1e11 in one or both coordinates
        mx = sx * float(10.0 ** rng.uniform(6, 11)) * float(rng.choice([-1, 1])) + float(rng.random()) * sx
        if rng.random() < 0.6:
            my = sy * float(10.0 ** rng.uniform(6, 11)) + float(rng.random()) * sy
        ctx.note("far-mean-cases")
    cov = r * sx * sy
    r_eff = cov / math.sqrt(vx * vy)     # what the code will compute
    sigma = np.array([[vx, cov], [cov, vy]])
    ctx.begin(k, branch(r_eff) + ("/r<0" if r_eff < 0 else ""), {"mu": [mx, my], "sigma": sigma, "r": r_eff})
    if abs(r_eff) >= 0.3:
        ctx.mark_nontrivial([mx, my], sigma)
    br = branch(r_eff)
    mu = np.array([mx, my])

    def F(xs, ys, via="gaussian"):
        ctx.ran()
        xs = np.asarray(xs, float); ys = np.asarray(ys, float)
        if via == "gaussian" or cov == 0.0:
            return np.asarray(K.gaussian(xs, ys, mu=mu, sigma=sigma), float)
        return np.asarray(K.bvn_cdf(xs, ys, mu_x=mx, mu_y=my, sigma_xx=vx, sigma_yy=vy, sigma_xy=cov), float)

    try:
        # ---- accuracy against the references (standardised points) ---------------------------------------------
        if abs(r_eff) <= 1 - 1e-6:
            pts = []
            for _ in range(5):
                style = int(rng.integers(0, 5))
                if style == 0:
                    h, kk = rng.normal(0, 1.5, 2)
                elif style == 1:
                    h = float(rng.normal(0, 2)); kk = h + float(rng.normal(0, 1)) * float(rng.choice([0, 1e-6, 1e-2, 0.3]))
                elif style == 2:
                    h = float(rng.normal(0, 2)); kk = -h + float(rng.normal(0, 1)) * float(rng.choice([0, 1e-6, 1e-2, 0.3]))
                elif style == 3:
                    h, kk = rng.uniform(-6, 6, 2)
                else:
                    h, kk = rng.choice([-40, -12, -8, 8, 12, 40], 2) + rng.normal(0, 1, 2)
                pts.append((float(h), float(kk)))
            xs = np.array([mx + h * sx for h, _ in pts]); ys = np.array([my + kk * sy for _, kk in pts])
            via = "gaussian" if rng.random() < 0.5 else "bvn_cdf"
            got = F(xs, ys, via)
            for (h, kk), g, x, y in zip(pts, got, xs, ys):
                # standardised coordinates exactly as a caller would see them
                hh, kk2 = (x - mx) / sx, (y - my) / sy
                a, b = phi2_plackett(hh, kk2, r_eff), phi2_conditional(hh, kk2, r_eff)
                if abs(a - b) > 1e-10:
                    ctx.note("oracle_disagreement")
                    continue
                ctx.check("agrees with reference bivariate normal CDF to 1e-7 [%s]" % br, abs(g - a) <= 1e-7,
                          key=None, got=float(g), ref=a, h=hh, k=kk2, r=r_eff, via=via)
        # ---- structural clauses on a sorted grid ------------------------------------------------------------------
        far = float(rng.choice([40.0, 40.0, 200.0, 1e3, 1e4]))     # pixel corners of a kernel much narrower than a pixel
        zs = np.unique(np.concatenate([rng.normal(0, 2, 6), [-far, -40.0, -9.0, -3.0, 0.0, 3.0, 9.0, 40.0, far], rng.uniform(-7, 7, 3),
                                       rng.uniform(-far, far, 2)]))
        if k % 61 == 5:
            # the corner mesh of a high-resolution image in ONE kernel call: 260-400 values per axis, 7e4-1.6e5 points
            zs = np.unique(np.concatenate([zs, np.linspace(-7.5, 7.5, int(rng.integers(250, 390))) + float(rng.normal(0, 0.01))]))
            ctx.note("large-cases")
        gx, gy = mx + zs * sx, my + zs * sy
        zx, zy = (gx - mx) / sx, (gy - my) / sy       # the standardised coordinates the evaluation points really have (far means round them)
        XX, YY = np.meshgrid(gx, gy, indexing="ij")
        G = F(XX.ravel(), YY.ravel(), "gaussian").reshape(len(gx), len(gy))
        finite = bool(np.all(np.isfinite(G)))
        ctx.check("values in [0,1]", finite and G.min() >= -EPS and G.max() <= 1 + EPS, min=float(np.nanmin(G)), max=float(np.nanmax(G)), r=r_eff)
        if finite:
            d0, d1 = np.diff(G, axis=0), np.diff(G, axis=1)
            ctx.check("non-decreasing in each argument", d0.min() >= -EPS and d1.min() >= -EPS, worst=float(min(d0.min(), d1.min())), r=r_eff)
            rect = G[1:, 1:] - G[:-1, 1:] - G[1:, :-1] + G[:-1, :-1]
            i, j = np.unravel_index(int(np.argmin(rect)), rect.shape)
            ctx.check("every rectangle has non-negative mass", rect.min() >= -EPS, worst=float(rect.min()), r=r_eff,
                      rect_std=[float(zs[i]), float(zs[i + 1]), float(zs[j]), float(zs[j + 1])])
            ctx.check("tails tend to 0 and 1", G[0, :].max() <= EPS and G[:, 0].max() <= EPS and abs(G[-1, -1] - 1) <= EPS,
                      low=float(max(G[0, :].max(), G[:, 0].max())), high=float(G[-1, -1]), r=r_eff)
            mxm = np.max(np.abs(G[:, -1] - ndtr(zx))); mym = np.max(np.abs(G[-1, :] - ndtr(zy)))
            ctx.check("marginals recovered far in the upper tail", max(mxm, mym) <= 1e-7, worst=float(max(mxm, mym)), r=r_eff)
        if finite and rng.random() < 0.5:
            # the same evaluation points in other argument forms: strided 1-D views, a read-only array, mean / covariance given as
            # lists (the kernels are documented for 1-D arrays of points: 2-D meshes are not an accepted form)
            form = str(rng.choice(["strided", "readonly", "mu-sigma-lists"]))
            ctx.ran()
            if form == "strided":
                bx = np.zeros(2 * XX.size); by = np.zeros(2 * YY.size); bx[::2] = XX.ravel(); by[::2] = YY.ravel()
                G2 = np.asarray(K.gaussian(bx[::2], by[::2], mu=mu, sigma=sigma), float).reshape(G.shape)
            elif form == "readonly":
                rx, ry = XX.ravel().copy(), YY.ravel().copy(); rx.setflags(write=False); ry.setflags(write=False)
                G2 = np.asarray(K.gaussian(rx, ry, mu=mu, sigma=sigma), float).reshape(G.shape)
            else:
                G2 = np.asarray(K.gaussian(XX.ravel(), YY.ravel(), mu=mu.tolist(), sigma=sigma.tolist()), float).reshape(G.shape)
            ctx.check("other argument forms give the same values", G2.shape == G.shape and np.array_equal(G2, G), form=form,
                      shape=G2.shape, worst=float(np.max(np.abs(G2 - G))) if G2.shape == G.shape else None)
        if cov == 0.0:
            prod = np.outer(ndtr(zx), ndtr(zy))
            ctx.check("zero covariance => product of marginals", finite and np.max(np.abs(G - prod)) <= 1e-14, worst=float(np.max(np.abs(G - prod))))
            S = np.asarray(K.sbvn_cdf(XX.ravel(), YY.ravel(), mu_x=mx, mu_y=my, sigma_x=vx, sigma_y=vy), float).reshape(G.shape)
            ctx.ran()
            ctx.check("sbvn_cdf == product of marginals", np.max(np.abs(S - prod)) <= 1e-14, worst=float(np.max(np.abs(S - prod))))
    except Exception as e:
        ctx.exception("kernel returns", e, r=r_eff)


def run_uniform_and_norm(ctx, k, rng):
    ctx.begin(k, "uniform+norm", None)
    try:
        xs = np.concatenate([rng.normal(0, 3, 20), [-40, -8, -1e-9, 0, 1e-9, 8, 40]])
        ctx.ran()
        got = np.asarray(K.norm_cdf(xs), float)
        ref = ndtr(xs)
        ctx.check("norm_cdf == standard normal CDF", np.max(np.abs(got - ref)) <= 1e-15 + 1e-13 * np.max(ref), worst=float(np.max(np.abs(got - ref))))
        w, h = float(10.0 ** rng.uniform(-3, 3)), float(10.0 ** rng.uniform(-3, 3))
        if rng.random() < 0.4:
            w, h = float(rng.integers(1, 6)), float(rng.integers(1, 6))
        mu = rng.normal(0, 5, 2)
        ctx.set_payload({"mu": mu, "width": w, "height": h})
        zx = np.concatenate([rng.uniform(-1.5, 1.5, 12), [-0.5, 0.5, 0, -0.5 - 1e-12, 0.5 + 1e-12, -30, 30]])
        zy = np.concatenate([rng.uniform(-1.5, 1.5, 12), [0.5, -0.5, 0, 30, -30, 0.1, -0.2]])
        X, Y = mu[0] + zx * w, mu[1] + zy * h
        ctx.ran()
        U = np.asarray(K.uniform(X, Y, mu=mu, width=w, height=h), float)
        refu = np.clip((X - (mu[0] - w / 2)) / w, 0, 1) * np.clip((Y - (mu[1] - h / 2)) / h, 0, 1)
        ctx.check("uniform == CDF of the uniform box", np.max(np.abs(U - refu)) <= 1e-12, worst=float(np.max(np.abs(U - refu))))
    except Exception as e:
        ctx.exception("kernel returns", e)
