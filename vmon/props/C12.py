"""C12 — imager geometry stays self-consistent under any configuration history."""
import math

import numpy as np

ID = "C12"
CASES = {"quick": 2500, "thorough": 100000}
MIN_NONTRIVIAL = {"quick": 800, "thorough": 14547}
REQUIRED = ["invariant: resolution*pixel_size == width/height (icontract, after every public mutation)",
            "invariant: width/height == extent of the reported ranges", "invariant: resolution entries are ints >= 1",
            "covered range contains what the operation asked for", "covered range exceeds the request by <= one pixel",
            "untouched axis unchanged", "image shape == resolution", "lattice probe: unit mass lands in the predicted pixel"]
RULE = ("histories: constructor arguments + 1-10 operations drawn from birth_range / pers_range / pixel_size assignments and "
        "fit() on 1-5 diagrams of positive extent; pixel sizes from {0.1,0.2,0.3,0.7,1/3,0.05,0.15,0.6,0.01,0.75,1,random reals}; "
        "ranges that are exact multiples, exact multiples +-1 ulp, inexact quotients (0.3/0.1, 0.7/0.1, 2/0.7, n/3), random reals, "
        "negative origins; a quarter of the histories are translated far from the origin (offsets 1e3..2.5e5 units, extents of a few pixels) and / or expressed in units of 1e-9, 1e-6, 1e3; resolution capped at 300 per axis. The class invariant is evaluated by icontract after __init__, every "
        "setter and fit; the lattice is probed behaviourally with single-point diagrams and a uniform kernel of width ps/1000. "
        "non-trivial = history of >=2 operations with at least one inexact quotient; distinct = digest of the history")
ASSUMPTIONS = ["only public attributes are read: birth_range, pers_range, width, height, resolution, pixel_size, transform output",
               "relative tolerance 1e-9 for the algebraic invariants; probe points are placed >= ps/50 away from pixel borders",
               "containment/excess are judged against the request of the *last* operation only (statement)"]
REQUIRED_NOTES = ["far-or-rescaled histories"]
TECHNIQUE = "runtime monitoring: icontract class invariant on PersistenceImager (evaluated after every public mutation) + history recorder + behavioural lattice probe"

PIXELS = [0.1, 0.2, 0.3, 0.7, 1 / 3, 0.05, 0.15, 0.6, 0.01, 0.75, 1.0, 0.25, 0.5]
FRAME = {"off_b": 0.0, "off_p": 0.0, "unit": 1.0}      # per case: where the data live (far from the origin / at a tiny or large unit)
INV_LOG = []     # filled by the icontract invariant (records, never raises)


def ones_weight(birth, pers, **kw):
    return np.ones(len(birth))


def geometry_invariant(self):
    try:
        r = self.resolution; ps = self.pixel_size; w = self.width; h = self.height
        br = self.birth_range; pr = self.pers_range
        INV_LOG.append({"resolution": (r[0], r[1]), "pixel_size": ps, "width": w, "height": h,
                        "birth_range": (br[0], br[1]), "pers_range": (pr[0], pr[1]),
                        "res_types": (type(r[0]).__name__, type(r[1]).__name__)})
    except Exception as e:          # object not fully constructed: nothing to record
        INV_LOG.append({"error": repr(e)})
    return True


class InvariantBroken(Exception):
    pass


def setup(ctx):
    global Imager
    import icontract
    import persim
    Imager = icontract.invariant(geometry_invariant, error=InvariantBroken)(persim.PersistenceImager)


def judge_states(ctx, where):
    """evaluate the recorded invariant snapshots (taken by icontract after each public mutation)"""
    n = 0
    seen = set()
    for s in INV_LOG:
        if "error" in s:
            continue
        sig = repr(sorted(s.items()))
        if sig in seen:             # property reads re-trigger the invariant on an unchanged state: judge each state once
            continue
        seen.add(sig)
        ctx.note("invariant snapshots (distinct states)")
        n += 1
        ps = s["pixel_size"]
        for axis, (res, ext, rng_) in enumerate(((s["resolution"][0], s["width"], s["birth_range"]),
                                                 (s["resolution"][1], s["height"], s["pers_range"]))):
            ctx.check("invariant: resolution*pixel_size == width/height (icontract, after every public mutation)",
                      abs(res * ps - ext) <= 1e-9 * max(abs(ext), ps), where=where, axis=axis, resolution=res, pixel_size=ps, extent=ext)
            ctx.check("invariant: width/height == extent of the reported ranges",
                      abs((rng_[1] - rng_[0]) - ext) <= 1e-9 * max(abs(ext), abs(rng_[0]), abs(rng_[1]), ps), where=where, axis=axis,
                      range=rng_, extent=ext)
            ctx.check("invariant: resolution entries are ints >= 1", isinstance(res, (int, np.integer)) and res >= 1,
                      where=where, axis=axis, resolution=res, type=s["res_types"][axis])
    del INV_LOG[:]
    return n


def gen_range(rng, ps, axis="b"):
    u = FRAME["unit"]
    origin = float(rng.choice([0.0, 0.0, -1.0, 0.5, -0.3, 2.0])) if rng.random() < 0.7 else float(rng.normal(0, 3))
    origin = origin * u + FRAME["off_" + axis]
    style = int(rng.integers(0, 5))
    n = int(rng.integers(1, 40))
    if style == 0:
        ext = n * ps                      # "exact" multiple as computed in floating point
    elif style == 1:
        ext = float(np.nextafter(n * ps, math.inf if rng.random() < 0.5 else -math.inf))
    elif style == 2:
        ext = float(rng.choice([0.3, 0.7, 2.0, 1.0, 1 / 3, 2 / 3, 0.9, 1.2, 2.1, 4.9, 5.0, 7.0 / 3])) * u
    elif style == 3:
        ext = float(rng.uniform(0.5, 40)) * ps
    else:
        ext = round(float(rng.uniform(0.2, 5)), int(rng.integers(1, 3)))
        if ext <= 0:
            ext = 1.0
        ext *= u
    ext = min(max(ext, ps * 0.51), 250 * ps)
    return (origin, origin + ext)


def inexact(extent, ps):
    q = extent / ps
    return q != round(q) or (round(q) * ps != extent)


def probe(ctx, P, rng, where):
    """behavioural lattice probe through transform(): unit mass from a uniform kernel of width ps/1000"""
    res = P.resolution; ps = P.pixel_size; b0 = P.birth_range[0]; p0 = P.pers_range[0]
    nb, npx = int(res[0]), int(res[1])
    if nb < 1 or npx < 1 or nb * npx > 120000:
        return
    pts = []

    def idxs(n):
        return sorted({0, n // 2, n - 1})
    for i in idxs(nb):
        for j in idxs(npx):
            pts.append((b0 + (i + 0.5) * ps, p0 + (j + 0.5) * ps, i, j))
    for i in idxs(nb):          # +-ps/50 around pixel borders
        j = int(rng.integers(0, npx))
        for off, ii in ((ps / 50, i), (-ps / 50, i - 1)):
            if 0 <= ii < nb:
                pts.append((b0 + i * ps + off, p0 + (j + 0.5) * ps, ii, j))
    for j in idxs(npx):
        i = int(rng.integers(0, nb))
        for off, jj in ((ps / 50, j), (-ps / 50, j - 1)):
            if 0 <= jj < npx:
                pts.append((b0 + (i + 0.5) * ps, p0 + j * ps + off, i, jj))
    # last borders and just outside the region
    pts.append((b0 + nb * ps - ps / 50, p0 + 0.5 * ps, nb - 1, 0))
    pts.append((b0 + 0.5 * ps, p0 + npx * ps - ps / 50, 0, npx - 1))
    outside = [(b0 - ps / 50, p0 + 0.5 * ps), (b0 + nb * ps + ps / 50, p0 + 0.5 * ps),
               (b0 + 0.5 * ps, p0 - ps / 50), (b0 + 0.5 * ps, p0 + npx * ps + ps / 50)]
    far = max(abs(b0) + nb * ps, abs(p0) + npx * ps) / ps
    kw_ = ps / 1000 if far < 1e4 else ps / 100      # far from the origin a narrower box would be resolved too coarsely by the coordinates themselves
    ptol = 1e-6 + 64 * np.finfo(float).eps * far * ps / kw_
    P.kernel_params = {"width": kw_, "height": kw_}
    first = True
    for (b, p, i, j) in pts:
        ctx.ran()
        img = np.asarray(P.transform(np.array([[b, p]]), skew=False))
        if first:       # transform must not disturb the geometry: judge the invariant snapshots of the first call only
            judge_states(ctx, where + "/transform")
            first = False
        okshape = img.shape == (nb, npx)
        ctx.check("image shape == resolution", okshape, where=where, shape=img.shape, resolution=[nb, npx])
        if not okshape:
            return
        tot = float(img.sum())
        pos = np.unravel_index(int(np.argmax(img)), img.shape)
        good = abs(img[i, j] - 1.0) <= ptol and abs(tot - 1.0) <= ptol
        ctx.check("lattice probe: unit mass lands in the predicted pixel", good, where=where, point=[b, p], predicted=[i, j],
                  landed=[int(pos[0]), int(pos[1])], mass_there=float(img[i, j]), total=tot,
                  public={"birth_range": P.birth_range, "pers_range": P.pers_range, "pixel_size": ps, "resolution": [nb, npx]})
    for (b, p) in outside:
        ctx.ran()
        img = np.asarray(P.transform(np.array([[b, p]]), skew=False))
        ctx.check("lattice probe: nothing lands for a point outside the region", img.shape == (nb, npx) and abs(float(img.sum())) <= ptol,
                  where=where, point=[b, p], total=float(img.sum()))
    del INV_LOG[:]


def run_case(ctx, k, rng):
    del INV_LOG[:]
    FRAME.update({"off_b": 0.0, "off_p": 0.0, "unit": 1.0})
    cls = "history"
    if rng.random() < 0.25:
        # the same histories where real data live: far from the origin (pressures, years, elevations: extent << coordinates) or in a
        # tiny / large unit; geometry is translation- and scale-equivariant, absolute or coordinate-relative closeness tests are not
        u = float(rng.choice([1.0, 1.0, 1e-9, 1e-6, 1e3]))
        off = float(rng.choice([0.0, 1e3, 1e5, 250000.0, -1e4])) * u
        FRAME.update({"unit": u, "off_b": off, "off_p": off if rng.random() < 0.3 else 0.0})
        cls = "history/far" if off else "history/unit"
        ctx.note("far-or-rescaled histories")
    U = FRAME["unit"]
    ps = float(rng.choice(PIXELS)) if rng.random() < 0.8 else round(float(rng.uniform(0.02, 1.5)), int(rng.integers(1, 4))) or 0.1
    ps *= U
    br, pr = gen_range(rng, ps, "b"), gen_range(rng, ps, "p")
    ops = []
    ctx.begin(k, cls, {"ctor": {"birth_range": br, "pers_range": pr, "pixel_size": ps}, "ops": ops})
    nontriv = inexact(br[1] - br[0], ps) or inexact(pr[1] - pr[0], ps)
    try:
        ctx.ran()
        P = Imager(birth_range=br, pers_range=pr, pixel_size=ps, weight=ones_weight, weight_params={},
                   kernel="uniform", kernel_params={"width": ps / 1000, "height": ps / 1000})
    except Exception as e:
        ctx.exception("constructor accepts a range of positive extent", e)
        return
    judge_states(ctx, "ctor")
    sc = max(abs(br[0]), abs(br[1]), abs(pr[0]), abs(pr[1]), ps)
    tol = 1e-9 * sc
    ok = P.birth_range[0] <= br[0] + tol and P.birth_range[1] >= br[1] - tol and P.pers_range[0] <= pr[0] + tol and P.pers_range[1] >= pr[1] - tol
    ctx.check("covered range contains what the operation asked for", ok, where="ctor", asked=[br, pr], got=[P.birth_range, P.pers_range])
    exb, exp_ = P.width - (br[1] - br[0]), P.height - (pr[1] - pr[0])
    ctx.check("covered range exceeds the request by <= one pixel", max(exb, exp_) <= ps * (1 + 1e-9) + tol, where="ctor",
              excess=[exb, exp_], pixel_size=ps)
    nops = int(rng.integers(1, 11))
    for t in range(nops):
        op = str(rng.choice(["birth_range", "pers_range", "pixel_size", "fit"]))
        before = {"birth_range": P.birth_range, "pers_range": P.pers_range, "pixel_size": P.pixel_size, "width": P.width, "height": P.height}
        try:
            ctx.ran()
            if op in ("birth_range", "pers_range"):
                val = gen_range(rng, P.pixel_size, "b" if op == "birth_range" else "p")
                ops.append({"op": op, "value": val})
                nontriv = nontriv or inexact(val[1] - val[0], P.pixel_size)
                r_ = rng.random()
                if r_ >= 0.3 and r_ < 0.42 and FRAME["unit"] == 1.0 and FRAME["off_" + ("b" if op == "birth_range" else "p")] == 0.0:
                    # integer end points as NumPy scalars of a narrow dtype (`(img.min(), img.max())` of an 8-bit image): lo + hi and
                    # hi - lo need not fit the dtype
                    dt = [np.uint8, np.int8, np.int16, np.uint16][int(rng.integers(0, 4))]
                    ii = np.iinfo(dt)
                    cap = int(min(ii.max, ii.min + 250 * P.pixel_size))
                    lo_i = int(rng.integers(ii.min, max(ii.min + 1, min(cap - 1, ii.max - 2))))
                    hi_i = int(rng.integers(lo_i + 1, min(ii.max, lo_i + max(2, int(250 * P.pixel_size))) + 1))
                    val = (float(lo_i), float(hi_i))
                    ops[-1]["value"] = val; ops[-1]["as"] = np.dtype(dt).name
                    setattr(P, op, (dt(lo_i), dt(hi_i)))
                    ctx.note("ranges given as NumPy integer scalars")
                elif r_ < 0.3:
                    # the range arrives in a mutable container (a list, an ndarray row of a limits table) which the caller goes on
                    # using: the imager must have taken the values, not the container
                    box = list(val) if r_ < 0.15 else np.array(val, float)
                    setattr(P, op, box)
                    box[0] = box[0] - 7.0 * P.pixel_size; box[1] = box[1] + 3.0 * P.pixel_size
                    ctx.note("ranges given as mutable containers")
                    ops[-1]["container"] = type(box).__name__
                else:
                    setattr(P, op, val)
                asked = {op: val}
            elif op == "pixel_size":
                ext = max(P.width, P.height)
                cand = [q * U for q in PIXELS if ext / (q * U) <= 300 and min(P.width, P.height) / (q * U) >= 0.5]
                newps = float(rng.choice(cand)) if cand and rng.random() < 0.8 else ext / float(rng.uniform(2, 60))
                ops.append({"op": op, "value": newps})
                nontriv = nontriv or inexact(P.width, newps) or inexact(P.height, newps)
                P.pixel_size = newps
                asked = {"birth_range": before["birth_range"], "pers_range": before["pers_range"]}
            else:
                nd = int(rng.integers(1, 6))
                cur = P.pixel_size
                dg = []
                for _ in range(nd):
                    n = int(rng.integers(1, 6))
                    b = rng.uniform(-2, 4, n) if rng.random() < 0.6 else np.round(rng.uniform(-2, 4, n), 1)
                    if rng.random() < 0.3:
                        b = b * float(rng.choice([0.01, 0.1])) * cur / U        # narrow spread of births (a few pixels or less)
                    b = b * U + FRAME["off_b"]
                    pers = rng.uniform(0.05 * cur, 60 * cur, n) if (rng.random() < 0.6 or U != 1.0) else np.round(rng.uniform(0.1, max(30 * cur, 0.2), n), 1) + 0.1
                    if rng.random() < 0.12:
                        # pairs below the diagonal (extended / superlevel-set persistence, the opposite filtration convention): "every
                        # fitted point" includes them
                        pers = pers * np.where(rng.random(n) < 0.4, -1.0, 1.0)
                        ctx.note("fits with pairs below the diagonal")
                    dg.append(np.column_stack([b, b + pers]))
                allp = np.vstack(dg)
                bp = np.column_stack([allp[:, 0], allp[:, 1] - allp[:, 0]])
                if np.ptp(bp[:, 0]) <= 0 or np.ptp(bp[:, 1]) <= 0 or np.ptp(bp[:, 0]) / cur > 280 or np.ptp(bp[:, 1]) / cur > 280:
                    dg.append(np.array([[bp[:, 0].min() - 3 * cur, bp[:, 0].min() - 3 * cur + bp[:, 1].max() + 2 * cur]]))
                    allp = np.vstack(dg)
                    bp = np.column_stack([allp[:, 0], allp[:, 1] - allp[:, 0]])
                    if np.ptp(bp[:, 0]) / cur > 280 or np.ptp(bp[:, 1]) / cur > 280:
                        continue
                ops.append({"op": "fit", "value": [d.tolist() for d in dg]})
                arg = dg if (len(dg) > 1 or rng.random() < 0.5) else dg[0]
                if rng.random() < 0.1:
                    # a sample without any class in this degree: an empty member in the fitted collection. The call may refuse it; if it
                    # accepts it, the ranges must still be those of the points that are there
                    arg = list(dg)
                    arg.insert(int(rng.integers(0, len(arg) + 1)), np.zeros((0, 2)))
                    ops[-1]["with_empty_member"] = True
                    ctx.note("fits with an empty member")
                    try:
                        P.fit(arg, skew=True)
                    except Exception as e:
                        ctx.note("fit refused a collection with an empty member")
                        same_state = (P.birth_range, P.pers_range, P.pixel_size, P.width, P.height) == tuple(before[x] for x in ("birth_range", "pers_range", "pixel_size", "width", "height"))
                        ctx.check("a refused fit leaves the geometry as it was", same_state, before=before, after={"birth_range": P.birth_range, "pers_range": P.pers_range})
                        del INV_LOG[:]
                        continue
                else:
                    P.fit(arg, skew=True)
                asked = {"birth_range": (float(bp[:, 0].min()), float(bp[:, 0].max())),
                         "pers_range": (float(bp[:, 1].min()), float(bp[:, 1].max()))}
                nontriv = nontriv or inexact(asked["birth_range"][1] - asked["birth_range"][0], cur)
        except Exception as e:
            ctx.exception("operation succeeds", e, op=op, step=t)
            del INV_LOG[:]
            return
        judge_states(ctx, "step %d:%s" % (t, op))
        cps = P.pixel_size
        sc = max(sc, max(abs(v) for v in P.birth_range + P.pers_range))
        tol = 1e-9 * sc
        for name, (lo, hi) in asked.items():
            got = getattr(P, name)
            ctx.check("covered range contains what the operation asked for", got[0] <= lo + tol and got[1] >= hi - tol,
                      where="step %d:%s" % (t, op), axis=name, asked=[lo, hi], got=got)
            ctx.check("covered range exceeds the request by <= one pixel", (got[1] - got[0]) - (hi - lo) <= cps * (1 + 1e-9) + tol,
                      where="step %d:%s" % (t, op), axis=name, asked=[lo, hi], got=got, pixel_size=cps)
        if op == "birth_range":
            same = all(abs(a - b) <= tol for a, b in zip(P.pers_range, before["pers_range"])) and abs(P.height - before["height"]) <= tol
            ctx.check("untouched axis unchanged", same, where="step %d:%s" % (t, op), before=before["pers_range"], after=P.pers_range)
        elif op == "pers_range":
            same = all(abs(a - b) <= tol for a, b in zip(P.birth_range, before["birth_range"])) and abs(P.width - before["width"]) <= tol
            ctx.check("untouched axis unchanged", same, where="step %d:%s" % (t, op), before=before["birth_range"], after=P.birth_range)
        if op != "pixel_size":
            ctx.check("pixel size unchanged by range operations", P.pixel_size == before["pixel_size"], where="step %d:%s" % (t, op))
        if rng.random() < 0.25:
            probe(ctx, P, rng, "after step %d:%s" % (t, op))
    probe(ctx, P, rng, "end of history")
    if nops >= 2 and nontriv:
        ctx.mark_nontrivial({"ctor": [br, pr, ps], "ops": ops}, sample={"ctor": {"birth_range": br, "pers_range": pr, "pixel_size": ps},
                                                                      "ops": [o if o["op"] != "fit" else {"op": "fit", "n_diagrams": len(o["value"])} for o in ops]})
