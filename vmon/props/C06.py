"""C06 — returned matchings certify the reported bottleneck / Wasserstein distance (inputs x hash seeds)."""
import math

import numpy as np

from .. import gen
from .. import forms as vforms
from ..oracles import matching as OM
from ..util import scale_of
from .C01 import gen_pair

ID = "C06"
CASES = {"quick": 4000, "thorough": 24000}
REPLICAS = {"quick": 4, "thorough": 8}
MIN_NONTRIVIAL = {"quick": 1000, "thorough": 6000}
REQUIRED = ["bn: distance same with/without matching", "bn: matching is a certificate", "bn: max row cost == distance",
            "ws: distance same with/without matching", "ws: matching is a certificate", "ws: sum of row costs == distance"]
RULE = ("C01/C02 generators restricted to finite diagrams (tie-heavy integer grids, equal points, empties, sizes to 60 "
        "quick / 150 thorough), each case replayed under several hash seeds; the set of distinct matchings returned "
        "across hash seeds is counted (configuration axis); ~30% of the cases continue with a history: the same array / list objects are modified in place (one death moved, everything doubled, rows reversed) and queried again. non-trivial = matching has >=3 rows and contains a -1 "
        "(diagonal pairing); distinct = digest of the input pair")
ASSUMPTIONS = ["certificate checker written from the statement; no tie-break assumed: any certificate passes",
               "empty diagram == one-point diagram (0,0) with index 0 (statement)",
               "row costs compared at 1e-9*scale (bottleneck) / 1e-7*scale (Wasserstein, sklearn cross distances); "
               "sum of rows vs distance at 1e-12*scale*(rows+1)"]
REQUIRED_NOTES = ["large-cases"]
TECHNIQUE = "runtime monitoring: certificate-checking monitor on the matching=True return values, replicated across PYTHONHASHSEED configurations"


def setup(ctx):
    global bottleneck, wasserstein
    import persim
    bottleneck, wasserstein = persim.bottleneck, persim.wasserstein


def placeholder(P):
    return P if P else [(0.0, 0.0)]


def run_case(ctx, k, rng):
    A, B, scale, small = gen_pair(rng, ctx.tier)
    cls = "small" if small else "medium"
    if k % 1999 == 1000:
        # more than a thousand points in total: matchings of realistic size
        scale = gen.pick_scale(rng)
        A = gen.diagram(rng, int(rng.integers(480, 620)), str(rng.choice(["float", "cluster"])), scale)
        B = gen.diagram(rng, int(rng.integers(480, 620)), str(rng.choice(["float", "cluster", "diagheavy"])), scale)
        cls = "large"
        ctx.note("large-cases")
    ctx.begin(k, cls, {"dgm1": A, "dgm2": B})
    S, T = placeholder(OM.finite_rows(A)), placeholder(OM.finite_rows(B))
    sc = scale_of(A, B)
    digests = []
    for kind, fn, tolrow in (("bn", bottleneck, 1e-9 * sc), ("ws", wasserstein, 1e-7 * sc)):
        try:
            ctx.ran(2)
            d0 = fn(A, B)
            res = fn(A, B, matching=True)
        except Exception as e:
            ctx.exception("%s: matching is a certificate" % kind, e)
            continue
        ok = isinstance(res, tuple) and len(res) == 2
        if not ctx.check("%s: returns (distance, rows)" % kind, ok, got=repr(res)[:200]):
            continue
        d, rows = res
        rows = np.asarray(rows)
        ctx.check("%s: distance same with/without matching" % kind, float(d) == float(d0), with_matching=d, without=d0)
        if rows.size == 0:
            rows = rows.reshape(0, 3)
        ok2 = rows.ndim == 2 and rows.shape[1] == 3
        if not ctx.check("%s: rows are (k,3)" % kind, ok2, shape=rows.shape):
            continue
        ok, why, total = OM.certify(S, T, rows.tolist(), kind, tolrow)
        ctx.check("%s: matching is a certificate" % kind, ok, reason=why, rows=rows, distance=d)
        if ok:
            name = "bn: max row cost == distance" if kind == "bn" else "ws: sum of row costs == distance"
            t = 1e-9 * sc if kind == "bn" else 1e-12 * sc * (len(rows) + 1)
            ctx.check(name, abs(total - float(d)) <= t, total=total, distance=d, rows=rows)
            if len(rows) >= 3 and np.any(rows[:, :2] == -1):
                ctx.mark_nontrivial(A, B)
        digests.append(rows[:, :2].tolist() if kind == "bn" else None)
        if ok and rng.random() < 0.3:
            # a result that is kept (matchings of a pairwise loop collected in a list) must stay what it was when later calls are
            # made - here on another pair with the same numbers of points
            try:
                ctx.ran(1)
                kept = rows          # the very array that was returned
                before = np.array(kept, copy=True)
                A2 = A[rng.permutation(len(A))] + 0.37 * sc if len(A) else A
                B2 = B[::-1] * 1.5 if len(B) else B
                fn(A2, B2, matching=True)
                ctx.check("%s: a returned matching is unchanged by later calls" % kind, np.array_equal(np.asarray(kept), before),
                          changed_rows=int(np.sum(np.any(np.asarray(kept) != before, axis=1))) if np.shape(kept) == before.shape else None)
            except Exception as e:
                ctx.exception("%s: a returned matching is unchanged by later calls" % kind, e)
    # container of the input: the same diagrams as nested lists / integer arrays must again yield certificates of the same distance
    if A.size and B.size and rng.random() < 0.25:
        isint = bool(np.all(A == np.round(A)) and np.all(B == np.round(B)) and sc < 1e9)
        r3 = rng.random()
        if r3 < 0.25:       # another memory layout of the same float64 values
            fa, fb = vforms.relayout(rng, A)[0], vforms.relayout(rng, B)[0]
        elif r3 < 0.45:     # the documented Mx(>=2) form: further columns (homology dimension, ...) that are to be ignored
            fa = vforms.with_extra_columns(rng, A) if rng.random() < 0.8 else A
            fb = vforms.with_extra_columns(rng, B) if rng.random() < 0.8 else B
            ctx.note("extra-column forms")
        else:
            fa, fb = (vforms.as_int_dtype(rng, A)[0], vforms.as_int_dtype(rng, B)[0]) if (isint and rng.random() < 0.5) else (A.tolist(), B.tolist())
        for kind, fn, tolrow in (("bn", bottleneck, 1e-9 * sc), ("ws", wasserstein, 1e-7 * sc)):
            try:
                ctx.ran(2)
                d0 = fn(A, B)
                d, rows = fn(fa, fb, matching=vforms.npflag(rng, True))
                rows = np.asarray(rows).reshape(-1, 3)
                okc, why, total = OM.certify(S, T, rows.tolist(), kind, tolrow)
                same = abs(float(d) - float(d0)) <= (0 if kind == "bn" else 1e-7 * sc * (len(S) + len(T) + 1))
                ctx.check("%s: list / integer input gives a certificate of the same distance" % kind, okc and same, reason=why,
                          distance=d, float_distance=d0, form=type(fa).__name__)
            except Exception as e:
                ctx.exception("%s: list / integer input gives a certificate of the same distance" % kind, e)
    # history: the same array objects, modified in place between calls (an interactive session, a loop that perturbs a
    # diagram): every call must answer for the values the arrays hold when it is made
    if len(S) >= 1 and len(T) >= 1 and A.size and B.size and sc > 1e-100 and rng.random() < 0.3:   # (squares of the update must not underflow)
        PA, PB = np.array(A, float), np.array(B, float)
        if rng.random() < 0.3:
            PA, PB = PA.tolist(), PB.tolist()
        for kind, fn, tolrow in (("bn", bottleneck, 1e-9 * sc), ("ws", wasserstein, 1e-7 * sc)):
            try:
                ctx.ran(3)
                first = fn(PA, PB, matching=bool(rng.integers(0, 2)))
                # in-place update, same objects, same number of points
                how = int(rng.integers(0, 4))
                i = int(rng.integers(0, len(PA)))
                if isinstance(PA, list):
                    PA[i] = [PA[i][0], PA[i][1] + float(rng.uniform(0.5, 5.0)) * sc]
                elif how == 0:
                    PA[i, 1] += float(rng.uniform(0.5, 5.0)) * sc
                elif how == 1:
                    PA *= 2.0
                elif how == 2:
                    PA[:] = PA[::-1].copy(); PB[0, 1] += 0.25 * sc
                else:
                    PB[int(rng.integers(0, len(PB))), 1] += float(rng.uniform(0.5, 5.0)) * sc
                d1, rows = fn(PA, PB, matching=True)
                d2 = fn(np.array(PA, float).copy(), np.array(PB, float).copy())
                sc2 = scale_of(np.array(PA, float), np.array(PB, float)); tolrow = (1e-9 if kind == "bn" else 1e-7) * sc2
                S2, T2 = placeholder(OM.finite_rows(np.array(PA, float))), placeholder(OM.finite_rows(np.array(PB, float)))
                rows = np.asarray(rows).reshape(-1, 3)
                okc, why, total = OM.certify(S2, T2, rows.tolist(), kind, tolrow)
                t = 1e-9 * sc2 if kind == "bn" else 1e-12 * sc2 * (len(rows) + 1)
                ctx.check("%s: after an in-place update of the same arrays the matching certifies the new distance" % kind,
                          okc and float(d1) == float(d2) and abs(total - float(d1)) <= t, reason=why, with_matching=d1, fresh_copy=d2,
                          total=total, before_update=first if not isinstance(first, tuple) else first[0], update=how)
            except Exception as e:
                ctx.exception("%s: after an in-place update of the same arrays the matching certifies the new distance" % kind, e)
    ctx.result(digests)     # bottleneck matchings may legitimately differ between hash seeds: recorded, not judged
