"""C14 — heat-kernel distance is a real pseudo-metric, stable w.r.t. Wasserstein."""
import math

import numpy as np

from .. import gen
from .. import forms as vforms
from ..util import scale_of

ID = "C14"
CASES = {"quick": 2400, "thorough": 40000}
MIN_NONTRIVIAL = {"quick": 900, "thorough": 15000}
REQUIRED = ["finite real >=0 (never NaN)", "d^2 == k(F,F)+k(G,G)-2k(F,G)", "reorder=>0", "symmetric", "triangle",
            "diagonal points ignored", "diagonal translation", "d <= W1/(4 sigma sqrt(pi))",
            "integer / list forms agree with float arrays in both argument positions"]
RULE = ("pairs/triples of finite diagrams, 0-40 points (quick <=25; 4% of cases up to 90; ~1% with 127-300 points): identical multisets in different order, copies with "
        "1e-9..1e-3 jitter, independent, disjoint supports, empty vs non-empty, near-diagonal points; sigma in "
        "{0.01,0.1,0.4,1,10}; scales 1e-2..1e2; array/list/int forms. non-trivial = both diagrams have >=2 points; "
        "distinct = digest of (pair, sigma); the reorder and near-identical classes must both be non-empty")
ASSUMPTIONS = ["oracle: k_sigma(F,G)=1/(8 pi sigma) sum_{p,q} exp(-|p-q|^2/8sigma)-exp(-|p-qbar|^2/8sigma) in np.longdouble",
               "comparison on the squared scale with a first-order rounding bound for persim's double-precision recursive "
               "summation: tol2 = (2mn+64)*eps*sum|terms| over the three kernel evaluations (cancellation under the square "
               "root makes any tolerance on d itself meaningless)",
               "stability bound re-derived for persim's Euclidean-ground W1: |Phi(p)-Phi(q)|_{L2} <= |p-q|_2/(4 sigma sqrt(pi))"]
TECHNIQUE = "runtime monitoring: postcondition + metamorphic monitor on persim.heat with a long-double kernel oracle and an fp-exception sensor"

LD = np.longdouble


def setup(ctx):
    global heat, wasserstein
    import persim
    heat, wasserstein = persim.heat, persim.wasserstein


def kern(F, G, sigma):
    """returns (k(F,G), sum of absolute terms) in long double"""
    F = np.asarray(F, dtype=LD).reshape(-1, 2)
    G = np.asarray(G, dtype=LD).reshape(-1, 2)
    if len(F) == 0 or len(G) == 0:
        return LD(0), LD(0)
    s = LD(sigma)
    d1 = (F[:, None, 0] - G[None, :, 0]) ** 2 + (F[:, None, 1] - G[None, :, 1]) ** 2
    d2 = (F[:, None, 0] - G[None, :, 1]) ** 2 + (F[:, None, 1] - G[None, :, 0]) ** 2
    e1, e2 = np.exp(-d1 / (8 * s)), np.exp(-d2 / (8 * s))
    c = 1 / (8 * LD(np.pi) * s)
    return c * np.sum(e1 - e2), c * np.sum(e1 + e2)


def ref_d2(F, G, sigma):
    kff, aff = kern(F, F, sigma)
    kgg, agg = kern(G, G, sigma)
    kfg, afg = kern(F, G, sigma)
    m, n = len(F), len(G)
    nterms = 2 * max(m * m, n * n, m * n) + 64
    tol2 = float(nterms * np.finfo(float).eps * (aff + agg + 2 * afg)) + 1e-300
    return float(kff + kgg - 2 * kfg), tol2


def gen_pair(rng, tier):
    top = 25 if tier == "quick" else 40
    if rng.random() < 0.12:
        top = 90       # a few larger diagrams: size-dependent behaviour (chunking, truncation) must not hide
    big = rng.random() < (0.012 if tier == "quick" else 0.02)
    style = str(rng.choice(["reorder", "jitter", "indep", "disjoint", "empty", "neardiag", "grid", "repaired", "mirror"]))
    scale = float(rng.choice([1e-2, 0.1, 1, 1, 1, 10, 1e2, 1e-9, 1e-6, 1e6]))
    m = int(rng.integers(1, top + 1))
    if big:         # sizes around and above 128 / 256 (block sizes of vectorised implementations)
        m = int(rng.choice([127, 128, 129, 130, 200, 257]))
        top = 130
    F = gen.diagram(rng, m, str(rng.choice(["float", "cluster", "dyadic"])), scale)
    if style == "reorder":
        G = F[rng.permutation(m)]
    elif style == "jitter":
        G = F[rng.permutation(m)] + rng.normal(0, float(rng.choice([1e-9, 1e-6, 1e-3])) * scale, (m, 2))
        G[:, 1] = np.maximum(G[:, 1], G[:, 0])      # stay inside the domain: no point below the diagonal
    elif style == "repaired":
        # same multiset of births and same multiset of deaths, paired differently: a different diagram at a positive distance
        F = gen.diagram(rng, m, str(rng.choice(["grid", "dyadic", "float"])), scale)
        G = gen.repaired(rng, F)
    elif style == "mirror":
        # points on both sides of the diagonal (extended persistence, swapped pairs): G holds near-mirror images (death, birth) of
        # points of F, with lifetimes that are large against sqrt(sigma) - the kernel's mirrored term is then the only one that counts
        m = int(rng.integers(1, 6))
        b = rng.uniform(0, 30, m); pers = rng.uniform(15, 90, m)
        F = np.column_stack([b, b + pers]) * scale
        G = F[:, ::-1] + rng.normal(0, float(rng.choice([0.0, 0.05, 0.5])) * scale, F.shape)
        if rng.random() < 0.5:
            G = np.vstack([G, gen.diagram(rng, int(rng.integers(0, 4)), "float", scale)])
        if rng.random() < 0.3:
            F = np.vstack([F, F[:1, ::-1]])          # a class and its mirror image inside one diagram
    elif style == "indep":
        G = gen.diagram(rng, int(rng.integers(1, top + 1)), None, scale)
    elif style == "disjoint":
        G = gen.diagram(rng, int(rng.integers(1, top + 1)), "float", scale) + 50 * scale
    elif style == "empty":
        G = np.zeros((0, 2))
        if rng.random() < 0.3:
            F, G = G, F
    elif style == "neardiag":
        F = gen.diagram(rng, m, "diagheavy", scale)
        G = gen.diagram(rng, int(rng.integers(1, top + 1)), "diagheavy", scale)
    else:
        F = gen.diagram(rng, m, "grid", scale)
        G = gen.diagram(rng, int(rng.integers(1, top + 1)), "grid", scale)
    if rng.random() < 0.15 and len(F) and len(G):
        # special values (0, -0.0, touching bars, exact repeats, diagonal points) and coordinates shared between F and G
        F = gen.specialize(rng, F, scale)
        if style == "reorder":
            G = F[rng.permutation(len(F))]          # must remain a reordering of F
        else:
            G = gen.entangle(rng, F, gen.specialize(rng, G, scale))
    sigma = float(rng.choice([0.01, 0.1, 0.4, 0.4, 1.0, 10.0, 2.0, 3.0])) * (scale ** 2 if rng.random() < 0.5 else 1.0)
    if style == "mirror":
        sigma = float(rng.choice([0.01, 0.1, 0.4])) * scale ** 2
    return F, G, sigma, scale, style


def run_case(ctx, k, rng):
    F, G, sigma, scale, style = gen_pair(rng, ctx.tier)
    ctx.begin(k, style, {"dgm1": F, "dgm2": G, "sigma": sigma})
    if len(F) >= 2 and len(G) >= 2:
        ctx.mark_nontrivial(F, G, sigma)
        ctx.note("nontrivial:" + style)

    F0, G0 = F.copy(), G.copy()

    def d(P, Q, s=sigma):
        ctx.ran()
        if rng.random() < 0.3:
            s = vforms.scalar_form(rng, s)       # the bandwidth as a Python int / numpy integer (sweeps over range()) / numpy float
            ctx.seen("sigma types", type(s).__name__)
        return heat(P, Q, s)

    def fin(x):
        return isinstance(x, (float, np.floating)) and math.isfinite(x)
    try:
        with ctx.fp_sensor() as fs:
            v = d(F, G)
    except Exception as e:
        ctx.exception("finite real >=0 (never NaN)", e)
        return
    okv = isinstance(v, (float, np.floating)) and math.isfinite(v) and v >= 0
    if not ctx.check("finite real >=0 (never NaN)", okv, key="nan-from-sqrt" if isinstance(v, (float, np.floating)) and math.isnan(v) else None,
                     got=repr(v), fp_events=fs.events[:5]):
        return
    v = float(v)
    r2, tol2 = ref_d2(F0, G0, sigma)        # reference from pristine copies: F and G themselves are reused in the calls below
    ctx.check("d^2 == k(F,F)+k(G,G)-2k(F,G)", abs(v * v - r2) <= tol2, got_sq=v * v, ref_sq=r2, tol2=tol2)
    if style == "reorder":
        ctx.check("reorder=>0", v * v <= tol2, got=v, tol2=tol2)
    if rng.random() < 0.25 and max(len(F), len(G)) <= 100:
        # a bandwidth sweep over a fixed pair: every value must be the one its own sigma defines
        s2 = sigma * float(rng.choice([0.1, 0.5, 2.0, 6.25, 100.0]))
        try:
            v2s = d(F, G, s2)
            r2s, t2s = ref_d2(F0, G0, s2)
            ctx.check("same pair under another sigma: d^2 == k(F,F)+k(G,G)-2k(F,G) for that sigma", fin(v2s) and abs(float(v2s) ** 2 - r2s) <= t2s,
                      got_sq=float(v2s) ** 2, ref_sq=r2s, sigma_first=sigma, sigma_now=s2, sizes=[len(F), len(G)])
        except Exception as e:
            ctx.exception("same pair under another sigma: d^2 == k(F,F)+k(G,G)-2k(F,G) for that sigma", e)
        if len(F) <= 100:
            vs = d(F, F)                             # the very same object on both sides
            _, tss = ref_d2(F, F, sigma)
            ctx.check("the same array as both arguments => 0", fin(vs) and float(vs) ** 2 <= tss, got=vs, tol2=tss)

    if max(len(F), len(G)) > 100:
        return          # large diagrams: the value clauses above are what they are for (python double loop: seconds per call)
    # representation: an integer-valued diagram as int array / list of python ints, in either argument position, mixed with a
    # float diagram, must give the value of the equal-valued float arrays
    if rng.random() < 0.2 and len(F) and len(G):
        Fi = np.round(F / scale * 3); Fi[:, 1] = np.maximum(Fi[:, 1], Fi[:, 0])
        Gf = G / scale * 3
        forms = [vforms.as_int_dtype(rng, Fi)[0], Fi.astype(int).tolist()][int(rng.integers(0, 2))]
        sg = sigma / (scale ** 2) * 9 if sigma < 1e-3 or sigma > 1e3 else sigma
        ctx.set_payload({"dgm1": forms, "dgm2": Gf, "sigma": sg})
        try:
            r2m, t2m = ref_d2(Fi, Gf, sg)
            a1, a2, a3 = d(forms, Gf, sg), d(Gf, forms, sg), d(Fi, Gf, sg)
            okm = all(fin(x) and abs(float(x) ** 2 - r2m) <= t2m for x in (a1, a2, a3))
            ctx.check("integer / list forms agree with float arrays in both argument positions", okm, int_first=a1, int_second=a2,
                      floats=a3, ref_sq=r2m)
        except Exception as e:
            ctx.exception("integer / list forms agree with float arrays in both argument positions", e)
        ctx.set_payload({"dgm1": F, "dgm2": G, "sigma": sigma})
    if len(F) and len(G) and rng.random() < 0.12:
        PF, PG = F0.copy(), G0.copy()
        try:
            first = d(PF, PG)
            how = vforms.update_in_place(rng, PF if rng.random() < 0.7 else PG, scale)
            v_now = d(PF, PG)
            r2u, t2u = ref_d2(PF.copy(), PG.copy(), sigma)
            ctx.check("after an in-place update the value is that of the current contents", fin(v_now) and abs(float(v_now) ** 2 - r2u) <= t2u,
                      got=v_now, ref_sq_on_current_values=r2u, before_update=first, update=how)
        except Exception as e:
            ctx.exception("after an in-place update the value is that of the current contents", e)
    if rng.random() < 0.06:
        ia, fa_, da = vforms.near_limit_int_diagram(rng, int(rng.integers(1, 6)), positive_length=False)
        ib, fb_, db = vforms.near_limit_int_diagram(rng, int(rng.integers(1, 6)), dtypes=(np.dtype(da).type,), positive_length=False)
        sg = float(rng.choice([0.05, 1.0])) * float(np.max(np.abs(fa_))) ** 2
        ctx.set_payload({"dgm1": ia, "dgm2": ib, "sigma": sg, "dtype": da})
        try:
            r2n, t2n = ref_d2(fa_, fb_, sg)
            vi, vf = d(ia, ib, sg), d(fa_, fb_, sg)
            ctx.check("narrow integer dtype near its limits == float64 of the same values", fin(vi) and fin(vf) and abs(float(vi) ** 2 - r2n) <= t2n
                      and abs(float(vf) ** 2 - r2n) <= t2n, int_form=vi, float_form=vf, ref_sq=r2n, dtype=da)
        except Exception as e:
            ctx.exception("narrow integer dtype near its limits == float64 of the same values", e)
        ctx.set_payload({"dgm1": F, "dgm2": G, "sigma": sigma})
    try:
        sub = int(rng.integers(0, 5))
        if sub == 0:
            v2 = d(G, F)
            ctx.check("symmetric", fin(v2) and abs(v2 * v2 - v * v) <= 2 * tol2, dfg=v, dgf=v2)
            vl = d(F.tolist(), G.tolist()) if len(F) and len(G) else v
            ctx.check("list form agrees", fin(vl) and abs(vl * vl - v * v) <= 2 * tol2, arr=v, lst=vl)
            if len(F) and len(G):
                (fa, na), (fb, nb) = vforms.relayout(rng, F), vforms.relayout(rng, G)
                vy = d(fa, fb)
                ctx.check("another memory layout agrees", fin(vy) and abs(vy * vy - v * v) <= 2 * tol2, arr=v, other=vy, layouts=[na, nb])
        elif sub == 1:
            H = gen.diagram(rng, int(rng.integers(0, 20)), None, scale)
            if rng.random() < 0.4 and len(F):
                H = F[rng.permutation(len(F))] + rng.normal(0, 1e-6 * scale, F.shape)
                H[:, 1] = np.maximum(H[:, 1], H[:, 0])
            ctx.set_payload({"F": F, "G": G, "H": H, "sigma": sigma})
            a, b = d(F, H), d(H, G)
            _, ta = ref_d2(F, H, sigma); _, tb = ref_d2(H, G, sigma)
            ok = fin(a) and fin(b) and v <= math.sqrt(a * a + ta) + math.sqrt(b * b + tb) + math.sqrt(tol2)
            ctx.check("triangle", ok, dFG=v, dFH=a, dHG=b)
        elif sub == 2:
            na, nb = int(rng.integers(0, 5)), int(rng.integers(1, 5))
            ta, tb = rng.uniform(-scale, 2 * scale, na), rng.uniform(-scale, 2 * scale, nb)
            F2 = np.vstack([F.reshape(-1, 2), np.column_stack([ta, ta])])[rng.permutation(len(F) + na)]
            G2 = np.vstack([G.reshape(-1, 2), np.column_stack([tb, tb])])[rng.permutation(len(G) + nb)]
            ctx.set_payload({"dgm1": F2, "dgm2": G2, "sigma": sigma})
            v2 = d(F2, G2)
            _, t2 = ref_d2(F2, G2, sigma)
            ctx.check("diagonal points ignored", fin(v2) and abs(v2 * v2 - v * v) <= tol2 + t2, got=v2, base=v)
        elif sub == 3:
            s = float(rng.uniform(-5, 5)) * scale
            v2 = d(F + s, G + s)
            _, t2 = ref_d2(F + s, G + s, sigma)
            # the shift itself perturbs coordinates by eps*(scale+|s|): first-order effect on d^2 via the Lipschitz bound
            sc = scale_of(F, G)
            lip = (len(F) + len(G)) * 4e-16 * (sc + abs(s)) / (4 * sigma * math.sqrt(math.pi))
            ok = fin(v2) and abs(v2 - v) <= lip + math.sqrt(tol2) + math.sqrt(t2)
            ctx.check("diagonal translation", ok, got=v2, base=v, shift=s)
        elif style != "mirror":      # (the Wasserstein distance is defined on or above the diagonal only)
            ctx.ran()
            w1 = float(wasserstein(F, G))
            wtol = 1e-7 * scale_of(F, G) * (len(F) + len(G) + 1)
            bound = (w1 + wtol) / (4 * sigma * math.sqrt(math.pi))
            ctx.check("d <= W1/(4 sigma sqrt(pi))", v * v <= bound * bound * (1 + 1e-9) + tol2, d=v, bound=bound, w1=w1)
    except Exception as e:
        ctx.exception("related call returns", e)
