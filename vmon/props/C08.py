"""C08 — grid landscapes within half a step; exact->grid sampling; transformer; death vector."""
import numpy as np

from .. import forms as vforms
from ..oracles import landscape as OL
from ..util import scale_of
from .C03 import gen_bars, overlapping, far_or_tiny, tolerance

ID = "C08"
CASES = {"quick": 5000, "thorough": 800000}
MIN_NONTRIVIAL = {"quick": 1500, "thorough": 68659}
REQUIRED = ["|grid value - true landscape| <= step/2 at every node and depth", "exact when endpoints lie on the grid",
            "vectorize(exact) == interpolated critical pairs at the nodes", "vectorize(exact) == definition at the nodes",
            "transformer == PersLandscapeApprox values", "transformer flatten == values.flatten()",
            "death vector non-increasing permutation of deaths"]
RULE = ("diagrams from the C03 generators (1-12 bars, grids with exact coincidences, floats, scales) sampled on grids with "
        "num_steps 2..500, also far from the origin (offset 1e5-1e7 bar lengths) and at absolute scale 1e-9: default grid [min birth, max death], wider grids, grids whose nodes hit / miss the endpoints, exact "
        "half-step ties; hom_deg 0..2 with decoys; one case in 331 has 1500-9000 bars on 500-2500 nodes (floats, integer grids with many births on the first node, all births 0). non-trivial = >=2 bars, >=1 endpoint off the grid and >=3 interior nodes; "
        "distinct = digest of (sorted bars, grid)")
ASSUMPTIONS = ["true landscape from the definition (k-th largest tent) evaluated at linspace(start, stop, num_steps)",
               "bound step/2 + 1e-9*scale; missing depths count as 0; the string sentinel stored for a grid with no interior "
               "node counts as 'no depths returned'",
               "vectorize is compared with linear interpolation of the exact object's own critical pairs (isolates C08 from "
               "the C03 known finding) and with the definition only when the trace hook reports no repeated-bar shortcut"]
REQUIRED_NOTES = ["large-cases"]
TECHNIQUE = "runtime monitoring: postcondition monitor on PersLandscapeApprox.values / vectorize / PersistenceLandscaper / death_vector with the definition as oracle"

EVENTS = []


def setup(ctx):
    global PLA, PLE, vectorize, death_vector, Landscaper
    import persim.landscapes.exact as ex
    from persim.landscapes import PersLandscapeApprox, PersLandscapeExact, PersistenceLandscaper
    from persim.landscapes.tools import vectorize as vz, death_vector as dv
    PLA, PLE, vectorize, death_vector, Landscaper = PersLandscapeApprox, PersLandscapeExact, vz, dv, PersistenceLandscaper
    tr = getattr(ex, "_VERIF_TRACE", None)
    if tr is not None:
        tr.append(lambda what, idx: EVENTS.append(idx))
    else:
        ctx.note("hook-missing")


def depth_rows(values):
    v = np.asarray(values)
    if v.dtype.kind in "US" or v.size == 0:
        return np.zeros((0, 0))
    return np.asarray(v, float)


def pick_grid(rng, bars):
    lo, hi = float(bars[:, 0].min()), float(bars[:, 1].max())
    span = hi - lo
    mode = str(rng.choice(["default", "default", "wider", "ongrid", "halfstep", "few"]))
    if mode == "default":
        return None, None, int(rng.choice([2, 3, 5, 10, 17, 50, 101, 500])), mode
    if mode == "wider":
        return lo - float(rng.random()) * span, hi + float(rng.random()) * span, int(rng.integers(2, 200)), mode
    if mode == "few":
        return lo, hi, int(rng.integers(2, 6)), mode
    # grids aligned to a quantum q of the data so that endpoints are nodes (ongrid) or exactly half-way (halfstep)
    q = float(np.min(np.diff(np.unique(np.concatenate([bars.ravel(), [lo, hi]])))))
    q = q if q > 0 else span
    cells = int(round(span / q))
    if cells < 1 or cells > 400 or abs(cells * q - span) > 1e-9 * span:
        return lo, hi, int(rng.integers(2, 200)), "wider"
    if mode == "ongrid":
        mult = int(rng.integers(1, 4))
        return lo, hi, cells * mult + 1, mode
    # halfstep: step = 2q/odd ... choose nodes so that some endpoints are exactly midway: step = 2q, start = lo - q
    return lo - q, hi + q + (2 * q if (cells % 2) else 0), (cells + 2 + (cells % 2) * 2) // 2 + 1, mode


def large_case(ctx, k, rng):
    """thousands of bars on fine grids (num_steps * bars of several million): whatever is done differently at that size must
    still be within half a step of the definition"""
    import io, contextlib
    n = int(rng.integers(1500, 9001))
    num = int(rng.choice([500, 500, 1000, 2000, 2500]))
    if rng.random() < 0.5:
        b = rng.random(n) * 10; d = b + rng.random(n) * float(rng.choice([0.5, 3.0])) + 1e-3; style = "large-float"
    else:
        b = rng.integers(0, 200, n).astype(float); d = b + rng.integers(1, 80, n); style = "large-grid"    # many births at the grid start
    if rng.random() < 0.3:
        b = np.zeros(n); style += "-h0"                                                                       # Rips H0: every birth 0
    bars = np.column_stack([b, d])[rng.permutation(n)]
    mode = str(rng.choice(["default", "wider", "transformer"]))
    lo, hi = float(bars[:, 0].min()), float(bars[:, 1].max())
    start, stop = (None, None) if mode != "wider" else (lo - float(rng.random()), hi + float(rng.random()))
    ctx.begin(k, style + "/" + mode, {"n_bars": n, "num_steps": num, "start": start, "stop": stop, "first_bars": bars[:5]})
    ctx.note("large-cases")
    s0, s1 = (lo, hi) if start is None else (start, stop)
    nodes, step = np.linspace(s0, s1, num, retstep=True)
    want = OL.lam_all(bars, nodes)
    tol = tolerance(bars)
    try:
        ctx.ran()
        with contextlib.redirect_stdout(io.StringIO()):
            if mode == "transformer":
                vals = depth_rows(Landscaper(hom_deg=0, num_steps=num, flatten=False).fit_transform([bars]))
            else:
                vals = depth_rows(PLA(start=start, stop=stop, num_steps=num, dgms=[bars], hom_deg=0).values)
    except Exception as e:
        ctx.exception("approximate landscape constructs", e)
        return
    K = vals.shape[0]
    ok_shape = K > 0 and vals.shape[1] == num and K <= n
    if not ctx.check("values have one row per depth and one column per node", ok_shape, shape=vals.shape, n=n, num=num):
        return
    err = np.abs(vals - want[:K])
    rest = float(want[K:].max()) if K < n else 0.0
    worst = max(float(err.max()), rest)
    i, j = np.unravel_index(int(np.argmax(err)), err.shape)
    ctx.check("|grid value - true landscape| <= step/2 at every node and depth", worst <= step / 2 + tol, worst_error=worst, step=step,
              depth=int(i) + 1, node=float(nodes[j]), got=float(vals[i, j]), want=float(want[i, j]), missing_depths_max=rest,
              in_steps=worst / step)
    ctx.mark_nontrivial(n, num, float(bars.sum()), mode)


def run_case(ctx, k, rng):
    if k % 331 == 5:
        return large_case(ctx, k, rng)
    bars, style = gen_bars(rng)
    bars, style = far_or_tiny(rng, bars, style)     # also far from the origin / at tiny absolute scale
    hom = int(rng.choice([0, 0, 1, 2]))
    dgms = [np.array([[0.0, 1.0], [0.5, 7.0]]) * (j + 1) for j in range(hom)] + [bars]
    start, stop, num, mode = pick_grid(rng, bars)
    ctx.begin(k, style + "/" + mode, {"bars": bars, "hom_deg": hom, "start": start, "stop": stop, "num_steps": num})
    sc = scale_of(bars)
    tol = tolerance(bars)       # 1e-9 of the longest bar + rounding of the coordinates (never 1e-9 of the coordinates)
    s0 = float(bars[:, 0].min()) if start is None else start
    s1 = float(bars[:, 1].max()) if stop is None else stop
    nodes, step = np.linspace(s0, s1, num, retstep=True)
    bars0 = bars.copy()         # every reference value comes from this pristine copy; `bars` itself is handed to one call after another
    want = OL.lam_all(bars0, nodes)
    n = len(bars)
    offgrid = np.min(np.abs(bars.ravel()[:, None] - nodes[None, :]), axis=1) > tol
    if n >= 2 and offgrid.any() and num >= 5:
        ctx.mark_nontrivial(sorted(map(tuple, bars.tolist())), [s0, s1, num])
    # ---- approximate landscape --------------------------------------------------------------------------------
    try:
        ctx.ran()
        import io, contextlib
        with contextlib.redirect_stdout(io.StringIO()):
            A = PLA(start=start, stop=stop, num_steps=num, dgms=dgms, hom_deg=hom)
        vals = depth_rows(A.values)
    except Exception as e:
        ctx.exception("approximate landscape constructs", e)
        vals = None
    if vals is not None:
        K = vals.shape[0]
        ok_shape = K == 0 or vals.shape[1] == num
        ctx.check("values have one row per depth and one column per node", ok_shape and K <= n, shape=vals.shape, n=n, num=num)
        if ok_shape:
            full = np.zeros((n, num))
            full[:min(K, n)] = vals[:n] if K else 0
            err = np.abs(full - want)
            worst = float(err.max()) if err.size else 0.0
            i, j = np.unravel_index(int(np.argmax(err)), err.shape) if err.size else (0, 0)
            ctx.check("|grid value - true landscape| <= step/2 at every node and depth", worst <= step / 2 + tol,
                      worst_error=worst, step=step, depth=int(i) + 1, node=float(nodes[j]), got=float(full[i, j]),
                      want=float(want[i, j]), in_steps=worst / step if step else None)
            ctx.seen("max_error_in_steps_x1000", int(1000 * worst / step) if step else 0)
            if not offgrid.any():
                ctx.check("exact when endpoints lie on the grid", worst <= tol, worst_error=worst, step=step)
            ctx.check("grid parameters reported", A.num_steps == num and abs(A.start - s0) <= tol and abs(A.stop - s1) <= tol,
                      start=A.start, stop=A.stop)
    if vals is not None and np.all(bars == np.round(bars)) and np.max(np.abs(bars)) < 2 ** 40 and rng.random() < 0.5:
        # the same diagram as an integer array must give the same samples
        try:
            ctx.ran()
            import io, contextlib
            with contextlib.redirect_stdout(io.StringIO()):
                Ai = PLA(start=start, stop=stop, num_steps=num, dgms=dgms[:hom] + [vforms.as_int_dtype(rng, bars)[0]] + dgms[hom + 1:], hom_deg=hom)
            vi = depth_rows(Ai.values)
            ctx.check("integer diagram == float diagram of the same values", vi.shape == vals.shape and np.allclose(vi, vals, rtol=0, atol=tol),
                      int_shape=vi.shape, float_shape=vals.shape)
        except Exception as e:
            ctx.exception("integer diagram == float diagram of the same values", e)
    if vals is not None and rng.random() < 0.15:
        # the same diagram in another memory layout must give the same samples
        try:
            ctx.ran()
            import io, contextlib
            arg, nm = vforms.relayout(rng, bars)
            with contextlib.redirect_stdout(io.StringIO()):
                Al = PLA(start=start, stop=stop, num_steps=num, dgms=dgms[:hom] + [arg] + dgms[hom + 1:], hom_deg=hom)
            vl = depth_rows(Al.values)
            ctx.check("another memory layout of the diagram gives the same samples", vl.shape == vals.shape and np.array_equal(vl, vals),
                      layout=nm, shape=vl.shape, float_shape=vals.shape)
        except Exception as e:
            ctx.exception("another memory layout of the diagram gives the same samples", e)
    sub = int(rng.integers(0, 3))
    if sub == 0:
        # ---- exact -> grid sampling ---------------------------------------------------------------------------
        try:
            del EVENTS[:]
            ctx.ran(2)
            E = PLE(dgms=dgms, hom_deg=hom)
            fired = bool(EVENTS)
            use_default = start is None
            V = vectorize(E, start=start, stop=stop, num_steps=num)
            v = depth_rows(V.values)
            cp = E.critical_pairs
            if use_default:
                xs0 = [p[0] for p in cp[0]]
                nodes_v = np.linspace(min(xs0), max(xs0), num)
            else:
                nodes_v = nodes
            exp = np.array([OL.pl_eval(dp, nodes_v) for dp in cp])
            ok = v.shape == exp.shape and np.all(np.abs(v - exp) <= tol)
            ctx.check("vectorize(exact) == interpolated critical pairs at the nodes", ok, shape=v.shape, expected_shape=exp.shape)
            if not fired:
                w2 = OL.lam_all(bars0, nodes_v)
                full = np.zeros((n, num)); full[:min(len(v), n)] = v[:n]
                ctx.check("vectorize(exact) == definition at the nodes", np.all(np.abs(full - w2) <= tol) and len(v) <= n,
                          worst=float(np.abs(full - w2).max()))
            ctx.check("vectorize grid parameters", V.num_steps == num and abs(V.start - nodes_v[0]) <= tol and abs(V.stop - nodes_v[-1]) <= tol,
                      start=V.start, stop=V.stop)
        except Exception as e:
            ctx.exception("vectorize returns", e)
    elif sub == 1:
        # ---- transformer ---------------------------------------------------------------------------------------
        try:
            import io, contextlib
            flat = bool(rng.integers(0, 2))
            ctx.ran(3)
            with contextlib.redirect_stdout(io.StringIO()):
                T = Landscaper(hom_deg=hom, start=start, stop=stop, num_steps=num, flatten=flat)
                out = T.fit_transform(dgms)
                T2 = Landscaper(hom_deg=hom, start=start, stop=stop, num_steps=num, flatten=flat)
                out2 = T2.fit(dgms).transform(dgms)
                ref = PLA(start=start, stop=stop, num_steps=num, dgms=dgms, hom_deg=hom).values
            if flat:
                okk = np.asarray(ref).dtype.kind in "US" or (np.array_equal(out, ref.flatten()) and np.array_equal(out2, out))
                ctx.check("transformer flatten == values.flatten()", okk, out_shape=np.shape(out), ref_shape=np.shape(ref))
            else:
                ctx.check("transformer == PersLandscapeApprox values", np.array_equal(out, ref) and np.array_equal(out2, out),
                          out_shape=np.shape(out), ref_shape=np.shape(ref))
            if start is None:
                ctx.check("fit learns [min birth, max death]", T.start == bars0[:, 0].min() and T.stop == bars0[:, 1].max(),
                          start=T.start, stop=T.stop)
            # train / test: fitted on this diagram, applied to another one (deeper or shallower) inside the fitted grid
            lo_, hi_ = float(T.start), float(T.stop)
            if hi_ > lo_:
                m2 = int(rng.integers(1, 13))
                b2 = lo_ + rng.random(m2) * (hi_ - lo_) * 0.6
                d2 = np.minimum(b2 + rng.random(m2) * (hi_ - lo_) * 0.8 + 1e-3 * (hi_ - lo_), hi_)
                other = np.column_stack([b2, d2])
                if rng.random() < 0.5:      # many overlapping bars: deeper than the training diagram
                    other = np.vstack([other, np.column_stack([np.full(6, lo_), np.linspace(hi_ - (hi_ - lo_) * 0.3, hi_, 6)])])
                d_other = dgms[:hom] + [other] + dgms[hom + 1:]
                ctx.ran(2)
                with contextlib.redirect_stdout(io.StringIO()):
                    out_o = T.transform(d_other)
                    ref_o = PLA(start=lo_, stop=hi_, num_steps=num, dgms=d_other, hom_deg=hom).values
                if np.asarray(ref_o).dtype.kind not in "US":
                    want_o = OL.lam_all(other, np.linspace(lo_, hi_, num))
                    got_o = np.asarray(out_o, float).reshape(-1, num) if np.asarray(out_o).size else np.zeros((0, num))
                    full_o = np.zeros((len(other), num)); full_o[:min(len(got_o), len(other))] = got_o[:len(other)]
                    step_o = (hi_ - lo_) / (num - 1)
                    ctx.check("transformer fitted on one diagram, applied to another: within half a step of that diagram's landscape",
                              float(np.abs(full_o - want_o).max()) <= step_o / 2 + tolerance(other) and
                              (np.array_equal(np.asarray(out_o), np.asarray(ref_o).flatten()) if flat else np.array_equal(out_o, ref_o)),
                              worst=float(np.abs(full_o - want_o).max()), step=step_o, out_shape=np.shape(out_o), ref_shape=np.shape(ref_o),
                              train_bars=len(bars0), test_bars=len(other))
        except Exception as e:
            ctx.exception("transformer returns", e)
    else:
        # ---- death vector --------------------------------------------------------------------------------------
        try:
            ctx.ran()
            dv = list(death_vector([bars] + dgms[1:], 0))
            ok = all(dv[i] >= dv[i + 1] for i in range(len(dv) - 1)) and sorted(dv) == sorted(bars0[:, 1].tolist())
            ctx.check("death vector non-increasing permutation of deaths", ok, got=dv)
            # the same on integer dtypes (grey levels, step numbers): deaths of 0 and values at the ends of the dtype's range
            ib, fb, dn = vforms.near_limit_int_diagram(rng, int(rng.integers(2, 8)), dtypes=(np.uint8, np.uint16, np.int8, np.int16, np.uint32),
                                                       positive_length=False)
            if rng.random() < 0.6:
                j = int(rng.integers(0, len(ib)))
                lo_ = np.iinfo(ib.dtype).min
                ib[j] = [lo_, lo_] if rng.random() < 0.5 else [ib[j, 0], ib[j, 0]]
                if ib.dtype.kind == "u":
                    ib[j] = [0, 0]
                fb = ib.astype(float)
            ctx.ran()
            dvi = [float(x) for x in death_vector([ib], 0)]
            ctx.check("death vector non-increasing permutation of deaths", all(dvi[i] >= dvi[i + 1] for i in range(len(dvi) - 1)) and
                      sorted(dvi) == sorted(fb[:, 1].tolist()), got=dvi, dtype=dn, deaths=fb[:, 1].tolist())
        except Exception as e:
            ctx.exception("death vector returns", e)
