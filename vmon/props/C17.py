"""C17 — mGH accepts every graph representation and degrades gracefully (inputs x configurations)."""
import warnings

import numpy as np
import scipy.sparse as sps

from ..oracles import mgh as OM

ID = "C17"
CASES = {"quick": 700, "thorough": 45000}
MIN_NONTRIVIAL = {"quick": 250, "thorough": 5955}
REQUIRED = ["every representation gives a valid bracket of the same distance", "identical labelling => identical lower bound across forms",
            "collection: symmetric matrices with zero diagonal", "collection: every entry brackets the pairwise distance",
            "collection: lower bounds equal the pair calls'", "fewer than 2 graphs rejected",
            "disconnected: warning, no exception, bracket for a largest component"]
RULE = ("one abstract graph (C05 families, n<=8 so that the exact oracle applies) in many concrete forms: nested lists, dense "
        "int/bool/float(weighted) arrays, Fortran-ordered and strided views, CSR/CSC/COO/LIL/DOK matrices and csr_array, upper-triangular / lower-triangular / symmetric / one-entry-per-edge-in-random-orientation fill, sparse forms with "
        "explicitly stored zeros, random relabelling; collections of 2-6 mixed-format graphs given as list / tuple / object array / one stacked 3-D array; a few 100-300 vertex graphs (sizes and diameters across the int8/int16 boundaries) against the one-point graph, where the exact distance is diam/2; disconnected unions (2-4 components, "
        "isolated vertices, ties for the largest component); RNG seeded per call. non-trivial = non-isomorphic pair with >=3 distinct "
        "forms exercised, or a disconnected input; distinct = digest of the abstract graphs")
ASSUMPTIONS = ["exact distance from the C05 backtracking oracle on my own BFS metric",
               "an explicitly stored zero in a sparse adjacency matrix is 'no edge' (it is the same matrix)",
               "disconnected input: bracketing the distance for any one of the components tied for largest is accepted"]
REQUIRED_NOTES = ["dense-small-component cases"]
TECHNIQUE = "runtime monitoring: metamorphic monitor over representations of one graph + exact oracle; warning/exception sensors for the degraded path"

from ..graphforms import FORMS, FILLS, represent      # noqa: E402


def setup(ctx):
    global gh
    import importlib
    gh = importlib.import_module("persim.gromov_hausdorff").gromov_hausdorff


def call(ctx, *args, seed=0):
    ctx.ran()
    np.random.seed(seed)
    with warnings.catch_warnings(record=True) as wl:
        warnings.simplefilter("always")
        out = gh(*args)
    return out, [str(w.message) for w in wl]


def disconnected_union(rng, nmax=9):
    k = int(rng.integers(2, 5))
    parts = []
    for _ in range(k):
        G, _ = OM.random_connected(rng, max(1, nmax // k + 1))
        parts.append(G)
    if rng.random() < 0.4 and len(parts) >= 2:      # force a tie for the largest
        parts[1] = OM.relabel(rng, parts[0])[0] if rng.random() < 0.5 else OM.random_connected(rng, len(parts[0]), len(parts[0]))[0]
    n = sum(len(p) for p in parts)
    A = np.zeros((n, n), dtype=int)
    o = 0
    for p in parts:
        A[o:o + len(p), o:o + len(p)] = p
        o += len(p)
    A, perm = OM.relabel(rng, A)
    return A


def large_case(ctx, k, rng):
    """a large graph (sizes and diameters across the int8 / int16 boundaries of the distance tables) in a random
    representation against the one-point graph: the exact distance is diam/2 (every map onto a point has distortion diam)"""
    n = int(rng.choice([100, 127, 128, 129, 130, 150, 200, 255, 256, 257, 300]))
    fam = str(rng.choice(["path", "cycle", "tree", "caterpillar", "lollipop", "gnp"]))
    A = {"path": lambda: OM.path(n), "cycle": lambda: OM.cycle(n), "tree": lambda: OM.random_tree(rng, n),
         "caterpillar": lambda: OM.caterpillar(n - n // 4, [1] * (n // 4)), "lollipop": lambda: OM.lollipop(5, n - 5),
         "gnp": lambda: OM.gnp_connected(rng, n, 3.0 / n)}[fam]()
    A, _ = OM.relabel(rng, A)
    D = OM.bfs_metric(A)
    diam = max(map(max, D))
    fA = str(rng.choice(FORMS)); fill = str(rng.choice(FILLS))
    point = [[[0]], np.zeros((1, 1), dtype=int), sps.csr_matrix((1, 1))][int(rng.integers(0, 3))]
    ctx.begin(k, "large/" + fam, {"family": fam, "n": n, "diameter": diam, "form": [fA, fill]})
    ctx.seen("large sizes", n)
    try:
        swap = rng.random() < 0.5
        ra = represent(rng, A, fA, fill)
        (lb, ub), _ = call(ctx, *((point, ra) if swap else (ra, point)), seed=int(rng.integers(0, 2 ** 31)))
        ctx.check("every representation gives a valid bracket of the same distance", float(lb) <= diam / 2 <= float(ub),
                  lower=lb, upper=ub, true=diam / 2, n=n, family=fam, form=[fA, fill])
        ctx.check("large graph vs point: both bounds equal diam/2", float(lb) == diam / 2 == float(ub), lower=lb, upper=ub, true=diam / 2)
    except Exception as e:
        ctx.exception("every representation gives a valid bracket of the same distance", e, n=n, family=fam, form=[fA, fill])
    ctx.mark_nontrivial("large", fam, n, fA, fill, A.tolist() if n <= 130 else [fam, n, int(A.sum())])


def dense_small_case(ctx, k, rng):
    """the largest component is sparse (a path, a tree), a smaller one is dense (a clique with far more edges than the whole graph has
    vertices): "largest" means most vertices. Against the one-point graph the exact distance is diam(largest)/2."""
    big = int(rng.integers(9, 22)); small = int(rng.integers(max(5, big - 4), big))
    L = OM.path(big) if rng.random() < 0.5 else OM.random_tree(rng, big)
    parts = [L, OM.complete(small)]
    if rng.random() < 0.4:
        parts.append(OM.complete(int(rng.integers(2, small + 1))))
    n = sum(len(p) for p in parts)
    A = np.zeros((n, n), dtype=int); o = 0
    for p in parts:
        A[o:o + len(p), o:o + len(p)] = p; o += len(p)
    A, _ = OM.relabel(rng, A)
    diam = max(map(max, OM.bfs_metric(L)))
    fA, fill = str(rng.choice(FORMS)), str(rng.choice(["upper", "sym", "mixed"]))
    point = [[[0]], np.zeros((1, 1), dtype=int), sps.csr_matrix((1, 1))][int(rng.integers(0, 3))]
    ctx.begin(k, "disconnected/dense-small", {"components": [len(p) for p in parts], "largest_diameter": diam, "form": [fA, fill], "A": A})
    ctx.note("dense-small-component cases")
    try:
        swap = rng.random() < 0.5
        ra = represent(rng, A, fA, fill)
        (lb, ub), msgs = call(ctx, *((point, ra) if swap else (ra, point)), seed=int(rng.integers(0, 2 ** 31)))
        warned = any("disconnected" in m for m in msgs)
        ctx.check("disconnected: warning, no exception, bracket for a largest component", warned and float(lb) <= diam / 2 <= float(ub), warned=warned,
                  lower=lb, upper=ub, true_for_candidates=[diam / 2], components=[len(p) for p in parts])
    except Exception as e:
        ctx.exception("disconnected: warning, no exception, bracket for a largest component", e, components=[len(p) for p in parts])
    ctx.mark_nontrivial("dense-small", [len(p) for p in parts], A.tolist())


def run_case(ctx, k, rng):
    if k % 19 == 6:
        return dense_small_case(ctx, k, rng)
    scen = int(rng.integers(0, 10))
    if rng.random() < 0.06:
        return large_case(ctx, k, rng)
    if scen <= 4:
        forms_case(ctx, k, rng)
    elif scen <= 6:
        collection_case(ctx, k, rng)
    else:
        disconnected_case(ctx, k, rng)


def forms_case(ctx, k, rng):
    A, fa = OM.random_connected(rng, 8); B, fb = OM.random_connected(rng, 8)
    if rng.random() < 0.2:
        # same size, same degrees, same distance profiles as far as one round of refinement sees - usually not isomorphic
        A = [OM.complete_bipartite(3, 3), OM.cycle(6), OM.grid(2, 3), OM.complete_bipartite(4, 4), OM.cycle(8), OM.grid(2, 4),
             OM.gnp_connected(rng, 7, 0.5)][int(rng.integers(0, 7))]
        B = OM.two_switch(rng, A, int(rng.integers(1, 3)))
        ctx.note("regular graph vs degree-preserving switch")
    A, _ = OM.relabel(rng, A); B, _ = OM.relabel(rng, B)
    ctx.begin(k, "forms", {"A": A, "B": B})
    DX, DY = OM.bfs_metric(A), OM.bfs_metric(B)
    try:
        true2 = OM.mgh_exact_doubled(DX, DY, 20.0)
    except OM.OracleTimeout:
        ctx.note("oracle_timeout")
        return
    seed = int(rng.integers(0, 2 ** 31))
    lbs, used = {}, []
    allok = True
    for _ in range(int(rng.integers(3, 7))):
        fA, fB = str(rng.choice(FORMS)), str(rng.choice(FORMS))
        fillA, fillB = str(rng.choice(FILLS)), str(rng.choice(FILLS))
        used.append((fA, fillA, fB, fillB))
        ctx.seen("forms", fA + "/" + fillA)
        try:
            (lb, ub), _ = call(ctx, represent(rng, A, fA, fillA), represent(rng, B, fB, fillB), seed=seed)
        except Exception as e:
            ctx.exception("every representation gives a valid bracket of the same distance", e, forms=used[-1])
            allok = False
            continue
        ok = float(lb) <= true2 / 2 <= float(ub)
        allok = allok and ok
        ctx.check("every representation gives a valid bracket of the same distance", ok, forms=used[-1], lower=lb, upper=ub, true=true2 / 2,
                  key=None)
        lbs[used[-1]] = float(lb)
    ctx.check("identical labelling => identical lower bound across forms", len(set(lbs.values())) <= 1, lowers={str(a): b for a, b in lbs.items()})
    # a relabelled copy is the same graph: valid bracket again (the lower bound is also label-independent for this algorithm,
    # but the statement only promises it for identical labelings)
    A2, _ = OM.relabel(rng, A)
    try:
        (lb, ub), _ = call(ctx, represent(rng, A2, str(rng.choice(FORMS)), "sym"), represent(rng, B, "int", "upper"), seed=seed)
        ctx.check("relabelled graph: valid bracket", float(lb) <= true2 / 2 <= float(ub), lower=lb, upper=ub, true=true2 / 2)
    except Exception as e:
        ctx.exception("relabelled graph: valid bracket", e)
    if true2 > 0 and len({(u[0], u[1]) for u in used} | {(u[2], u[3]) for u in used}) >= 3:
        ctx.mark_nontrivial(C05sig(DX), C05sig(DY))


def C05sig(D):
    return sorted(tuple(sorted(r)) for r in D)


def collection_case(ctx, k, rng):
    m = int(rng.integers(2, 7))
    container = str(rng.choice(["list", "list", "tuple", "stacked", "object-array", "generator-list"]))
    if container == "stacked":
        # a batch of same-sized dense matrices as ONE 3-D array (np.stack of the graphs): indexing it creates temporaries
        nn = int(rng.integers(3, 8))
        graphs = []
        while len(graphs) < m:
            G = OM.relabel(rng, OM.random_connected(rng, 7)[0])[0]
            if len(G) == nn:
                graphs.append(G)
            elif len(graphs) == 0 and rng.random() < 0.2:
                nn = len(G)
        fill = str(rng.choice(FILLS)); dt = rng.choice([np.int64, np.int8, float, bool])
        reps = [np.asarray(represent(rng, G, "int", fill)).astype(dt) for G in graphs]
        coll = np.stack(reps)
    else:
        graphs = [OM.relabel(rng, OM.random_connected(rng, 7)[0])[0] for _ in range(m)]
        reps = [represent(rng, G, str(rng.choice(FORMS)), str(rng.choice(FILLS))) for G in graphs]
        if container == "tuple":
            coll = tuple(reps)
        elif container == "object-array":
            coll = np.empty(m, dtype=object)
            for i, r in enumerate(reps):
                coll[i] = r
        else:
            coll = list(reps)
    ctx.begin(k, "collection/" + container, {"graphs": graphs})
    ctx.seen("collection containers", container)
    seed = int(rng.integers(0, 2 ** 31))
    try:
        (lbs, ubs), _ = call(ctx, coll, seed=seed)
    except Exception as e:
        ctx.exception("collection call returns", e)
        return
    lbs, ubs = np.asarray(lbs), np.asarray(ubs)
    okshape = lbs.shape == (m, m) and ubs.shape == (m, m)
    sym = okshape and np.array_equal(lbs, lbs.T) and np.array_equal(ubs, ubs.T) and not np.any(np.diag(lbs)) and not np.any(np.diag(ubs))
    ctx.check("collection: symmetric matrices with zero diagonal", sym, lbs=lbs, ubs=ubs)
    if not okshape:
        return
    Ds = [OM.bfs_metric(G) for G in graphs]
    okb, bad = True, None
    oke, bade = True, None
    for i in range(m):
        for j in range(i + 1, m):
            try:
                t2 = OM.mgh_exact_doubled(Ds[i], Ds[j], 10.0)
            except OM.OracleTimeout:
                ctx.note("oracle_timeout")
                continue
            if not (lbs[i, j] <= t2 / 2 <= ubs[i, j]):
                okb, bad = False, {"pair": [i, j], "lower": float(lbs[i, j]), "upper": float(ubs[i, j]), "true": t2 / 2}
            (lb, ub), _ = call(ctx, reps[i], reps[j], seed=seed)
            if float(lb) != float(lbs[i, j]):
                oke, bade = False, {"pair": [i, j], "pair_call": float(lb), "collection": float(lbs[i, j])}
    ctx.check("collection: every entry brackets the pairwise distance", okb, witness=bad)
    ctx.check("collection: lower bounds equal the pair calls'", oke, witness=bade)
    for bad_arg in ([reps[0]], []):
        try:
            ctx.ran()
            r = gh(bad_arg)
            ctx.check("fewer than 2 graphs rejected", False, got=repr(r)[:80], n=len(bad_arg))
        except ValueError:
            ctx.check("fewer than 2 graphs rejected", True)
        except Exception as e:
            ctx.exception("fewer than 2 graphs rejected", e, n=len(bad_arg))
    if m >= 3:
        ctx.mark_nontrivial([C05sig(D) for D in Ds])


def disconnected_case(ctx, k, rng):
    A = disconnected_union(rng)
    B, fb = OM.random_connected(rng, 8)
    B, _ = OM.relabel(rng, B)
    both = rng.random() < 0.2
    if both:
        B = disconnected_union(rng, 8)
    swap = rng.random() < 0.5
    ctx.begin(k, "disconnected", {"A": A, "B": B, "A_is_second_argument": swap})

    def candidates(G):
        comps = OM.components(G)
        top = max(len(c) for c in comps)
        return [G[np.ix_(c, c)] for c in comps if len(c) == top], len(comps)
    cA, ncA = candidates(A)
    cB, ncB = candidates(B)
    fA, fB = str(rng.choice(FORMS)), str(rng.choice(FORMS))
    ra, rb = represent(rng, A, fA, str(rng.choice(["upper", "sym", "mixed"]))), represent(rng, B, fB, str(rng.choice(["upper", "sym", "mixed"])))
    try:
        (lb, ub), msgs = call(ctx, *((rb, ra) if swap else (ra, rb)), seed=int(rng.integers(0, 2 ** 31)))
    except Exception as e:
        ctx.exception("disconnected: warning, no exception, bracket for a largest component", e, forms=[fA, fB], components=[ncA, ncB])
        ctx.mark_nontrivial(A.tolist(), B.tolist())
        return
    warned = any("disconnected" in m for m in msgs)
    ok = False
    trues = []
    for ga in cA:
        for gb in cB:
            try:
                t2 = OM.mgh_exact_doubled(OM.bfs_metric(ga), OM.bfs_metric(gb), 10.0)
            except OM.OracleTimeout:
                ctx.note("oracle_timeout")
                return
            trues.append(t2 / 2)
            ok = ok or (float(lb) <= t2 / 2 <= float(ub))
    ctx.check("disconnected: warning, no exception, bracket for a largest component", warned and ok, warned=warned, lower=lb, upper=ub,
              true_for_candidates=trues, components=[ncA, ncB], warnings=msgs[:3])
    ctx.mark_nontrivial(A.tolist(), B.tolist())
    if len(cA) > 1 or len(cB) > 1:
        ctx.note("tie for the largest component")
