"""C20 — plots draw exactly the data and matchings they are given (inputs x configurations)."""
import warnings

import numpy as np

from .. import gen
from .. import forms as vforms
from ..util import scale_of

ID = "C20"
CASES = {"quick": 700, "thorough": 80000}
MIN_NONTRIVIAL = {"quick": 200, "thorough": 6472}
REQUIRED = ["diagram plot: one scatter collection per plotted diagram with its points (single precision)",
            "diagram plot: infinite deaths on one dashed line strictly inside the axes", "diagram plot: limits contain all finite points",
            "diagram plot: title / labels / legend as requested", "diagram plot: nothing drawn on any other axes",
            "matching plot: one segment per matched pair, correct end points, on the given axes",
            "matching plot: no segment on any other axes", "bottleneck plot: exactly the bottleneck pair is marked distinctly"]
RULE = ("diagram plots: 1-3 diagrams of 0-30 points (at least one non-empty), with / without infinite deaths, negative births, "
        "given as C-ordered / Fortran-ordered / transposed-build / strided / read-only arrays, option "
        "grid over plot_only, lifetime, diagonal, legend (bool or numpy.bool_), labels (None / list / single string), title, xy_range; matching plots: "
        "matchings returned by bottleneck / wasserstein on generated pairs incl. an empty diagram on either side; every call is made on "
        "a figure with two subplots where the supplied axes is, and is not, pyplot's current axes (and once with ax=None); all artists "
        "of every axes of every open figure are inspected. non-trivial = matching with >=1 point-point row and >=1 diagonal row on "
        "each side, or a diagram plot with >=2 diagrams and an infinite point; distinct = digest of (inputs, options)")
ASSUMPTIONS = ["artists are read back from matplotlib on the Agg canvas: PathCollection offsets, Line2D data/style, limits, labels, legend",
               "single precision: 1e-6*scale; segments compared as unordered end-point pairs",
               "with xy_range the containment of points is not judged (statement lifts it); all-empty inputs are not plotted"]
REQUIRED_NOTES = ["overlay-cases"]
TECHNIQUE = "runtime monitoring: artist-inspection monitor on matplotlib figures (all axes of all open figures) after each plotting call"


def setup(ctx):
    global P, plt
    import matplotlib.pyplot as plt_
    import persim as P_
    P, plt = P_, plt_
    warnings.simplefilter("ignore")


def two_axes(current_is_target):
    fig, (a0, a1) = plt.subplots(1, 2)
    target, other = (a0, a1)
    plt.sca(target if current_is_target else other)
    return fig, target, other


def artists(ax):
    return {"collections": list(ax.collections), "lines": list(ax.lines), "images": list(ax.images), "texts": list(ax.texts)}


def n_artists(ax):
    return len(ax.collections) + len(ax.lines) + len(ax.images) + len(ax.texts) + (1 if ax.get_legend() else 0)


def other_axes_clean(target):
    dirty = []
    for num in plt.get_fignums():
        for ax in plt.figure(num).axes:
            if ax is not target and n_artists(ax):
                dirty.append({"figure": num, "lines": [[np.asarray(l.get_xdata(), float).tolist(), np.asarray(l.get_ydata(), float).tolist()] for l in ax.lines][:4],
                              "collections": len(ax.collections)})
    return dirty


def seg_key(p, q, nd=5, sc=1.0):
    a = (round(float(p[0]) / sc, nd), round(float(p[1]) / sc, nd))
    b = (round(float(q[0]) / sc, nd), round(float(q[1]) / sc, nd))
    return tuple(sorted([a, b]))


# ---------------------------------------------------------------------------------------------------------------------------------
def diagram_case(ctx, k, rng):
    nd = int(rng.integers(1, 4))
    scale = float(rng.choice([0.01, 1, 1, 10, 1000]))
    dgms = []
    for _ in range(nd):
        n = int(rng.integers(0, 31))
        D = gen.diagram(rng, n, str(rng.choice(["float", "grid", "cluster", "dyadic"])), scale, allow_diag=True)
        if rng.random() < 0.3 and n:
            D = D - float(rng.uniform(0, 3)) * scale
        if rng.random() < 0.5 and n:
            D = gen.insert_inf_rows(rng, D, int(rng.integers(1, 3)))
            D[np.isinf(D[:, 1]), 0] *= scale
        dgms.append(D.reshape(-1, 2))
    if all(np.sum(np.isfinite(d)) == 0 for d in dgms):
        dgms[0] = np.array([[0.0, 1.0 * scale], [0.5 * scale, 2.0 * scale]])
    opts = {}
    if rng.random() < 0.3 and nd > 1:
        opts["plot_only"] = sorted(set(int(x) for x in rng.integers(0, nd, int(rng.integers(1, nd + 1)))))
        if opts["plot_only"] == [0] and rng.random() < 0.5:
            opts["plot_only"] = [nd - 1]
        if rng.random() < 0.4:
            # positions counted from the end ("the last diagram"): the same selection, written with negative indices
            opts["plot_only"] = [(i - nd) if rng.random() < 0.6 else i for i in opts["plot_only"]]
            ctx.note("plot_only with negative positions")
    if rng.random() < 0.4:
        opts["lifetime"] = True
    if rng.random() < 0.3:
        opts["diagonal"] = False
    if rng.random() < 0.4:
        opts["legend"] = bool(rng.integers(0, 2))
    lab = int(rng.integers(0, 3))
    if lab == 1:
        opts["labels"] = ["diagram %d" % i for i in range(nd)]
    elif lab == 2 and nd == 1:
        opts["labels"] = "only one"
    if rng.random() < 0.4:
        opts["title"] = "T%d" % k
    if rng.random() < 0.15:
        lo, hi = -2.0 * scale, 12.0 * scale
        opts["xy_range"] = [lo, hi, lo, hi] if rng.random() < 0.5 else [lo, hi * float(rng.choice([0.5, 2.0])), lo * 0.5, hi * float(rng.choice([0.25, 1.0, 3.0]))]
    single = nd == 1 and rng.random() < 0.5
    # what is handed to the plotting call: the same values, a third of the diagrams in another memory layout (Fortran order,
    # np.array([births, deaths]).T, a strided window, read-only); boolean options sometimes as numpy.bool_
    given, lay = [], []
    for d in dgms:
        r = rng.random()
        if r < 0.3 and len(d):
            g, nm = vforms.relayout(rng, d)
        else:
            g, nm = d, "as-is"
        given.append(g); lay.append(nm)
    for name in ("lifetime", "diagonal", "legend"):
        if name in opts:
            opts[name] = vforms.npflag(rng, opts[name])
    arg = given[0] if single else given
    shown_idx = [i % nd for i in opts["plot_only"]] if opts.get("plot_only") else list(range(nd))
    if single and "plot_only" in opts:
        del opts["plot_only"]; shown_idx = [0]
    shown = [dgms[i] for i in shown_idx]
    if all(np.sum(np.isfinite(d)) == 0 for d in shown):
        return
    mode = int(rng.integers(0, 3))       # 0: target is current, 1: target is not current, 2: ax=None (gca)
    ctx.begin(k, "diagrams/mode%d" % mode, {"diagrams": dgms, "given_as": lay, "options": {a: (bool(b) if isinstance(b, np.bool_) else b) for a, b in opts.items()}, "axes_mode": mode})
    for nm in lay:
        ctx.seen("diagram argument forms", nm)
    plt.close("all")
    fig, target, other = two_axes(mode != 1)
    try:
        ctx.ran()
        if mode == 2:
            P.plot_diagrams(arg, **opts)
        else:
            P.plot_diagrams(arg, ax=target, **opts)
    except Exception as e:
        ctx.exception("diagram plot returns", e)
        plt.close("all")
        return
    sc = scale_of(*shown) if "xy_range" not in opts else max(scale_of(*shown), 12 * scale)
    tol = 2e-6 * sc
    lifetime = opts.get("lifetime", False)
    has_inf = any(np.any(np.isinf(d)) for d in shown)
    colls = target.collections
    xl, yl = target.get_xlim(), target.get_ylim()
    # the infinity line: dashed, horizontal, spans the x-limits
    inf_y = None
    inf_ok = True
    if has_inf:
        cands = [l for l in target.lines if len(l.get_xdata()) == 2 and l.get_ydata()[0] == l.get_ydata()[1] and l.get_linestyle() == "--"
                 and abs(l.get_xdata()[0] - xl[0]) <= tol and abs(l.get_xdata()[1] - xl[1]) <= tol]
        if len(cands) == 1:
            inf_y = float(cands[0].get_ydata()[0])
            inf_ok = min(yl) < inf_y < max(yl)
        else:
            inf_ok = False
    ok = len(colls) == len(shown)
    why = None if ok else "expected %d collections, found %d" % (len(shown), len(colls))
    if ok:
        for D, c in zip(shown, colls):
            off = np.asarray(c.get_offsets(), float).reshape(-1, 2)
            exp = np.asarray(D, np.float32).astype(float)
            if lifetime:
                exp = np.column_stack([exp[:, 0], (np.asarray(D, np.float32)[:, 1] - np.asarray(D, np.float32)[:, 0]).astype(float)])
            infm = np.isinf(np.asarray(D, float)[:, 1]) if len(D) else np.zeros(0, bool)
            if off.shape != exp.shape:
                ok, why = False, "collection has %d points, diagram has %d" % (len(off), len(exp)); break
            fin = ~infm
            if fin.any() and np.max(np.abs(off[fin] - exp[fin])) > tol:
                ok, why = False, "finite points differ by %g" % float(np.max(np.abs(off[fin] - exp[fin]))); break
            if infm.any():
                if np.max(np.abs(off[infm, 0] - exp[infm, 0])) > tol:
                    ok, why = False, "births of infinite points differ"; break
                ys = off[infm, 1]
                if inf_y is None or np.max(np.abs(ys - inf_y)) > tol:
                    inf_ok = False
    ctx.check("diagram plot: one scatter collection per plotted diagram with its points (single precision)", ok, reason=why)
    if has_inf:
        ctx.check("diagram plot: infinite deaths on one dashed line strictly inside the axes", inf_ok, inf_line_y=inf_y, ylim=yl)
    if "xy_range" not in opts and ok:
        pts = np.vstack([np.asarray(c.get_offsets(), float).reshape(-1, 2) for c in colls]) if colls else np.zeros((0, 2))
        inside = bool(len(pts) == 0 or (pts[:, 0].min() >= min(xl) - tol and pts[:, 0].max() <= max(xl) + tol and
                                        pts[:, 1].min() >= min(yl) - tol and pts[:, 1].max() <= max(yl) + tol))
        ctx.check("diagram plot: limits contain all finite points", inside, xlim=xl, ylim=yl)
    # decorations
    want_labels = opts.get("labels")
    if want_labels is None:
        want_labels = ["$H_{%d}$" % i for i in range(nd)]
    if not isinstance(want_labels, list):
        want_labels = [want_labels] * nd
    want_labels = [want_labels[i] for i in shown_idx]
    leg = target.get_legend()
    want_leg = opts.get("legend", True)
    deco = (target.get_xlabel() == "Birth") and (target.get_ylabel() == ("Lifetime" if lifetime else "Death"))
    deco = deco and ((leg is not None) == bool(want_leg))
    leg_txt = [t.get_text() for t in leg.get_texts()] if leg else []
    if leg:
        deco = deco and [t for t in leg_txt if t != r"$\infty$"] == want_labels and ((r"$\infty$" in leg_txt) == has_inf)
    if "title" in opts:
        deco = deco and target.get_title() == opts["title"]
    else:
        deco = deco and target.get_title() == ""
    ctx.check("diagram plot: title / labels / legend as requested", deco, xlabel=target.get_xlabel(), ylabel=target.get_ylabel(),
              legend=leg_txt, wanted_labels=want_labels, title=target.get_title())
    # (a diagram whose coordinates are all equal gets a zero-length diagonal: it is still "drawn")
    diag_lines = [l for l in target.lines if len(l.get_xdata()) == 2 and np.allclose(l.get_xdata(), l.get_ydata()) and l.get_linestyle() == "--"
                  and not (has_inf and inf_y is not None and l.get_ydata()[0] == l.get_ydata()[1] == inf_y and l.get_xdata()[0] != l.get_xdata()[1])]
    want_diag = opts.get("diagonal", True) and not lifetime
    ctx.check("diagram plot: diagonal drawn iff requested", (len(diag_lines) == 1) == bool(want_diag), found=len(diag_lines), wanted=want_diag)
    dirty = other_axes_clean(target)
    ctx.check("diagram plot: nothing drawn on any other axes", not dirty, found=dirty[:2])
    if len(shown) >= 2 and has_inf:
        ctx.mark_nontrivial(dgms, opts, mode)
    plt.close("all")


def matching_case(ctx, k, rng):
    which = "bottleneck" if rng.random() < 0.5 else "wasserstein"
    scale = float(rng.choice([0.01, 1, 1, 10]))
    top = 31 if rng.random() < 0.2 else 9
    if rng.random() < 0.02:
        top = 140
    m, n = int(rng.integers(0, top)), int(rng.integers(0, top))
    if m == 0 and n == 0:
        m = 2
    kind = str(rng.choice(["float", "grid", "cluster", "dyadic"]))
    A = gen.diagram(rng, m, kind, scale, allow_diag=False)
    B = gen.diagram(rng, n, kind, scale, allow_diag=False)
    if m and n and rng.random() < 0.5:      # partial jittered copy: mixes point-point and diagonal rows
        B = A[rng.integers(0, m, n)] + rng.normal(0, 0.05 * scale, (n, 2))
        B[:, 1] = np.maximum(B[:, 1], B[:, 0] + 1e-3 * scale)
        extra = gen.diagram(rng, int(rng.integers(1, 3)), "float", scale, allow_diag=False) + 5 * scale
        B = np.vstack([B, extra])
        A = np.vstack([A, gen.diagram(rng, int(rng.integers(1, 3)), "float", scale, allow_diag=False) + 9 * scale])
    fn = P.bottleneck if which == "bottleneck" else P.wasserstein
    mode = int(rng.integers(0, 3))
    has_inf = False
    Afin, Bfin = A, B
    if rng.random() < 0.25 and len(A) and len(B):
        # essential classes at arbitrary rows (first, in the middle, last): the distance functions drop them, and the matching they
        # return indexes the remaining points; the plot receives the diagrams as the user has them
        if rng.random() < 0.7:
            A = gen.insert_inf_rows(rng, A, int(rng.integers(1, 3))); A[np.isinf(A[:, 1]), 0] *= scale
        if rng.random() < 0.5:
            B = gen.insert_inf_rows(rng, B, 1); B[np.isinf(B[:, 1]), 0] *= scale
        has_inf = bool(np.any(np.isinf(A)) or np.any(np.isinf(B)))
        ctx.note("matching plots of diagrams with essential classes")
    ctx.begin(k, "%s/mode%d%s" % (which, mode, "/inf" if has_inf else ""), {"dgm1": A, "dgm2": B, "which": which, "axes_mode": mode})
    try:
        d, rows = fn(A, B, matching=True)
    except Exception as e:
        ctx.exception("distance with matching returns", e)
        return
    rows = np.asarray(rows, float).reshape(-1, 3)
    labels = ["first", "second"] if rng.random() < 0.5 else None
    plt.close("all")
    fig, target, other = two_axes(mode != 1)
    plot = P.bottleneck_matching if which == "bottleneck" else P.wasserstein_matching
    kw = {} if labels is None else {"labels": labels}
    try:
        ctx.ran()
        if mode == 2:
            plot(A, B, rows, **kw)
        else:
            plot(A, B, rows, ax=target, **kw)
    except Exception as e:
        ctx.exception("matching plot returns", e, rows=rows)
        plt.close("all")
        return
    S = Afin if len(Afin) else np.array([[0.0, 0.0]])
    T = Bfin if len(Bfin) else np.array([[0.0, 0.0]])
    sc = scale_of(S, T)
    q = 1e-9 + sc
    expected = []
    for (i, j, c) in rows:
        i, j = int(i), int(j)
        if i == -1 and j == -1:
            continue
        if i == -1:
            p = T[j]; f = (p[0] + p[1]) / 2; expected.append(seg_key(p, (f, f), sc=q))
        elif j == -1:
            p = S[i]; f = (p[0] + p[1]) / 2; expected.append(seg_key(p, (f, f), sc=q))
        else:
            expected.append(seg_key(S[i], T[j], sc=q))
    xl = target.get_xlim()

    def segments(ax):
        out = []
        for l in ax.lines:
            x, y = np.asarray(l.get_xdata(), float), np.asarray(l.get_ydata(), float)
            if len(x) != 2:
                continue
            is_diag = np.allclose(x, y) and l.get_linestyle() == "--" and abs(x[0] - xl[0]) <= 1e-6 * q and abs(x[1] - xl[1]) <= 1e-6 * q
            is_infline = has_inf and y[0] == y[1] and l.get_linestyle() == "--" and abs(x[0] - xl[0]) <= 1e-6 * q and abs(x[1] - xl[1]) <= 1e-6 * q
            if is_diag or is_infline:
                continue
            out.append((seg_key((x[0], y[0]), (x[1], y[1]), sc=q), (l.get_linestyle(), float(l.get_linewidth()), str(l.get_color()))))
        return out
    got = segments(target)
    ok = sorted(g[0] for g in got) == sorted(expected)
    ctx.check("matching plot: one segment per matched pair, correct end points, on the given axes", ok,
              expected=len(expected), found=len(got), missing=[e for e in expected if e not in [g[0] for g in got]][:3],
              unexpected=[g[0] for g in got if g[0] not in expected][:3], rows=rows)
    dirty = other_axes_clean(target)
    ctx.check("matching plot: no segment on any other axes", not dirty, found=dirty[:2], rows=rows)
    # both diagrams are shown as scatter collections with their points
    offs = [np.asarray(c.get_offsets(), float).reshape(-1, 2) for c in target.collections]
    okc = len(offs) == 2 and all(o.shape == np.asarray(D).reshape(-1, 2).shape and (len(o) == 0 or np.max(np.abs(o - np.asarray(D, np.float32).astype(float))) <= 2e-6 * q)
                                 for o, D in zip(offs, (S if which == "wasserstein" else (A if len(A) else np.zeros((0, 2))),
                                                        T if which == "wasserstein" else (B if len(B) else np.zeros((0, 2))))))
    if not has_inf:
        ctx.check("matching plot: both diagrams drawn as scatter collections", okc, found=[o.shape for o in offs])
    if labels is not None and target.get_legend():
        ctx.check("matching plot: legend labels as requested", [t.get_text() for t in target.get_legend().get_texts() if t.get_text() != r"$\infty$"][:2] == labels,
                  legend=[t.get_text() for t in target.get_legend().get_texts()])
    if which == "bottleneck" and ok and len(rows):
        keep = [r for r in range(len(rows)) if not (rows[r, 0] == -1 and rows[r, 1] == -1)]
        imax = int(np.argmax(rows[:, 2]))
        styles = [g[1] for g in got]
        # lines are drawn in row order
        if len(styles) == len(keep):
            pos = keep.index(imax) if imax in keep else None
            distinct = pos is not None and all((styles[t] != styles[pos]) for t in range(len(styles)) if t != pos) and \
                len({styles[t] for t in range(len(styles)) if t != pos}) <= 1
            ctx.check("bottleneck plot: exactly the bottleneck pair is marked distinctly", distinct, styles=styles, argmax_row=imax)
    pp = sum(1 for r in rows if r[0] >= 0 and r[1] >= 0)
    if pp >= 1 and any(r[0] >= 0 and r[1] == -1 for r in rows) and any(r[0] == -1 and r[1] >= 0 for r in rows):
        ctx.mark_nontrivial(A, B, which, mode)
    plt.close("all")


def overlay_case(ctx, k, rng):
    """two diagram plots on the SAME axes (two runs overlaid with their own labels): the second call finds artists of the first
    one; what it adds must again be its own points, with its infinite deaths on an infinity line inside the final axes and
    above every finite point it drew"""
    s1 = float(rng.choice([0.1, 1, 1, 10])); s2 = s1 * float(rng.choice([0.1, 0.3, 1.0, 3.0, 10.0]))
    ds = []
    for s in (s1, s2):
        D = gen.diagram(rng, int(rng.integers(2, 12)), str(rng.choice(["float", "grid", "cluster"])), s, allow_diag=True)
        D = gen.insert_inf_rows(rng, D, int(rng.integers(1, 3)))
        D[np.isinf(D[:, 1]), 0] *= s
        ds.append(D)
    lt1, lt2 = bool(rng.random() < 0.3), bool(rng.random() < 0.3)
    ctx.begin(k, "overlay", {"first": ds[0], "second": ds[1], "lifetime": [lt1, lt2]})
    ctx.note("overlay-cases")
    plt.close("all")
    fig, target, other = two_axes(True)
    try:
        ctx.ran(2)
        P.plot_diagrams(ds[0], ax=target, lifetime=lt1, labels="run 1")
        before_c, before_l = list(target.collections), list(target.lines)
        P.plot_diagrams(ds[1], ax=target, lifetime=lt2, labels="run 2")
    except Exception as e:
        ctx.exception("diagram plot returns", e)
        plt.close("all")
        return
    D = ds[1]
    new_c = [c for c in target.collections if c not in before_c]
    yl = target.get_ylim()
    tol = 2e-6 * max(scale_of(D), 1e-300)
    ok, why, inf_ok, inf_y = len(new_c) == 1, None, True, None
    if ok:
        off = np.asarray(new_c[0].get_offsets(), float).reshape(-1, 2)
        exp = np.asarray(D, np.float32).astype(float)
        if lt2:
            exp = np.column_stack([exp[:, 0], (np.asarray(D, np.float32)[:, 1] - np.asarray(D, np.float32)[:, 0]).astype(float)])
        infm = np.isinf(D[:, 1])
        if off.shape != exp.shape:
            ok, why = False, "collection has %d points, diagram has %d" % (len(off), len(exp))
        elif np.max(np.abs(off[~infm] - exp[~infm])) > tol or np.max(np.abs(off[infm, 0] - exp[infm, 0])) > tol:
            ok, why = False, "points differ"
        else:
            ys = off[infm, 1]
            inf_y = float(ys[0])
            top_finite = float(np.max(off[~infm, 1]))
            inf_ok = bool(np.all(np.abs(ys - inf_y) <= tol)) and min(yl) < inf_y < max(yl) and inf_y >= top_finite - tol and any(
                l.get_linestyle() == "--" and len(l.get_ydata()) == 2 and abs(l.get_ydata()[0] - inf_y) <= tol and abs(l.get_ydata()[1] - inf_y) <= tol
                for l in target.lines)
    else:
        why = "expected 1 new collection, found %d" % len(new_c)
    ctx.check("diagram plot: one scatter collection per plotted diagram with its points (single precision)", ok, reason=why, overlay=True)
    if ok:
        ctx.check("diagram plot: infinite deaths on one dashed line strictly inside the axes", inf_ok, inf_line_y=inf_y, ylim=yl, overlay=True,
                  top_finite=float(np.max(off[~infm, 1])))
    dirty = other_axes_clean(target)
    ctx.check("diagram plot: nothing drawn on any other axes", not dirty, found=dirty[:2])
    ctx.mark_nontrivial(ds, lt1, lt2)
    plt.close("all")


def run_case(ctx, k, rng):
    if k % 13 == 4:
        return overlay_case(ctx, k, rng)
    if rng.random() < 0.5:
        diagram_case(ctx, k, rng)
    else:
        matching_case(ctx, k, rng)
