"""C11 — persistence images are additive, order-free and call-style independent (inputs x schedules x configurations)."""
import os
import tempfile

import numpy as np

from .. import forms as vforms
from .. import imgcfg

ID = "C11"
CASES = {"quick": 1600, "thorough": 20000}
MIN_NONTRIVIAL = {"quick": 400, "thorough": 5000}
REQUIRED = ["image of a union == sum of images", "point order irrelevant", "zero-weight points contribute nothing",
            "empty diagram => zero image of the configured resolution", "alone == inside a collection (in order)",
            "parallel == serial, in input order", "birth-death+skew == birth-persistence", "non-negative weights => no negative pixel",
            "pixel total <= total weight"]
RULE = ("imager configurations as in C04 (all kernel / weight kinds incl. |r|>=0.925), diagrams of 0-30 points, collections of 1-12 "
        "diagrams with empty diagrams at first / middle / last position; ~6% of the cases compare serial with joblib-parallel "
        "transforms (n_jobs in {1,2,3,-1}, loky and threading backends) using a weight callable that sleeps a data-dependent time, "
        "one case in 131 applies the union / order / collection / sign / total relations to a diagram of 2000-9000 pairs on a grid of up to 160x160 pixels; "
        "so that workers finish out of submission order (completion orders are recorded from the workers' own event log). "
        "non-trivial = collection of >=3 diagrams with >=2 non-empty, or a union of two non-empty diagrams; distinct = digest of "
        "(configuration, diagrams)")
ASSUMPTIONS = ["equalities between two runs of the same arithmetic in a different order or batching (union, order, zero-weight points, alone / in a collection) are judged at 1e-12*W (W = total |weight|), never bit-for-bit; "
               "the birth-death / birth-persistence relation at 1e-9*W because (b+p)-b re-rounds the persistence",
               "sign / total clauses at 1e-9*W; weights judged non-negative from the oracle-side weight function",
               "schedules: only those joblib produces on this machine (loky processes, threads), perturbed by injected sleeps"]
REQUIRED_NOTES = ["large-cases", "reconfigure-cases", "cancelling-weight-cases"]
TECHNIQUE = "runtime monitoring: metamorphic-relation monitor on PersistenceImager.transform across call styles and joblib schedules, with a worker event log"


def setup(ctx):
    global Imager, joblib
    import joblib as jl
    import persim
    joblib = jl
    Imager = persim.PersistenceImager
    here = os.path.dirname(os.path.dirname(os.path.dirname(os.path.abspath(__file__))))
    repo = os.environ.get("VERIF_REPO", "/repo")
    os.environ["PYTHONPATH"] = os.pathsep.join([repo, here, os.path.join(here, ".deps")])   # for loky children


def bd(bp):
    out = np.array(bp, float).reshape(-1, 2).copy()
    out[:, 1] = out[:, 0] + out[:, 1]
    return out


def large_case(ctx, k, rng):
    """the same relations on diagrams of thousands of pairs and grids of up to 160x160 pixels"""
    geom, kkw, kdesc, wkw, wfun, bp = imgcfg.gen_large(rng)
    ctx.begin(k, "large/" + kdesc["kind"], {"ctor": {**geom, "kernel": kdesc, "weight": {a: (b if not callable(b) else b.__name__) for a, b in wkw.items()}},
                                            "n_pairs": len(bp), "first_pairs": bp[:5]})
    ctx.note("large-cases")
    try:
        P = Imager(**geom, **kkw, **wkw)
        U = bd(bp)
        cut = int(rng.integers(len(U) // 4, 3 * len(U) // 4))
        A, B = U[:cut], U[cut:]
        ctx.ran(5)
        ia, ib, iu = np.asarray(P.transform(A)), np.asarray(P.transform(B)), np.asarray(P.transform(U))
        ip = np.asarray(P.transform(U[rng.permutation(len(U))]))
        coll = P.transform([A, np.zeros((0, 2)), B, U])
        w = np.asarray(wfun(bp[:, 0], bp[:, 1]), float)
        W = float(np.sum(np.abs(w))) + 1e-300
        ctx.check("image of a union == sum of images", np.max(np.abs(iu - (ia + ib))) <= 1e-12 * W, worst=float(np.max(np.abs(iu - (ia + ib)))), W=W,
                  total_union=float(iu.sum()), total_parts=float(ia.sum() + ib.sum()))
        ctx.check("point order irrelevant", np.max(np.abs(ip - iu)) <= 1e-12 * W, worst=float(np.max(np.abs(ip - iu))))
        worst = max(float(np.max(np.abs(np.asarray(coll[0]) - ia))), float(np.max(np.abs(np.asarray(coll[2]) - ib))),
                    float(np.max(np.abs(np.asarray(coll[3]) - iu))), float(np.max(np.abs(np.asarray(coll[1])))))
        ctx.check("alone == inside a collection (in order)", len(coll) == 4 and worst <= 1e-12 * W, worst=worst, n=4, W=W)
        ctx.check("non-negative weights => no negative pixel", float(iu.min()) >= -1e-9 * W, min_pixel=float(iu.min()), W=W)
        ctx.check("pixel total <= total weight", float(iu.sum()) <= W * (1 + 1e-9), total=float(iu.sum()), W=W)
        ctx.mark_nontrivial(geom, kdesc, len(bp), float(bp.sum()))
    except Exception as e:
        ctx.exception("transform returns", e, scenario="large")


def reconfigure_case(ctx, k, rng):
    """a parameter sweep on ONE imager (`for s in sigmas: imgr.kernel_params = {...}; imgr.transform(dgms)`): after every
    reassignment the images must be those of a brand-new imager with that configuration - alone, in a collection, serial or parallel"""
    geom = imgcfg.gen_geometry(rng)
    ctx.begin(k, "reconfigure", None)
    ctx.note("reconfigure-cases")
    try:
        ctx.ran()
        P = Imager(**geom)
        pub = {"birth_range": tuple(P.birth_range), "pers_range": tuple(P.pers_range), "pixel_size": P.pixel_size}
        # diagrams that share birth / persistence values (integer grids, all births 0)
        coll = []
        for _ in range(int(rng.integers(1, 4))):
            A = bd(imgcfg.gen_points(rng, int(rng.integers(1, 8)), pub, integer=bool(rng.random() < 0.5)))
            if rng.random() < 0.3:
                A[:, 1] -= A[:, 0]; A[:, 0] = 0.0
                A[:, 1] = np.maximum(A[:, 1], 0.0)
            coll.append(A)
        steps = []
        ctx.set_payload({"ctor": geom, "collection": coll, "steps": steps})
        worst = 0.0
        for t in range(int(rng.integers(2, 5))):
            kkw, kdesc = imgcfg.gen_kernel(rng, geom["pixel_size"], high_corr=False)
            wkw, wfun, _ = imgcfg.gen_weight(rng, nonneg_only=True)
            what = str(rng.choice(["kernel_params", "kernel_params", "weight_params", "both"]))
            cfg = {}
            if what in ("kernel_params", "both") and "kernel_params" in kkw and kkw.get("kernel") == "gaussian":
                P.kernel_params = kkw["kernel_params"]
                cfg["kernel_params"] = kkw["kernel_params"]
            if what in ("weight_params", "both") and wkw.get("weight") == "persistence":
                P.weight_params = wkw["weight_params"]
                cfg["weight_params"] = wkw["weight_params"]
            steps.append({a: (np.asarray(b["sigma"]).tolist() if "sigma" in b else b) for a, b in cfg.items()})
            ctx.ran(3)
            live = P.transform(coll, skew=True)
            fresh = Imager(**geom, kernel_params=P.kernel_params, weight_params=P.weight_params).transform(coll, skew=True)
            one = P.transform(coll[0], skew=True)
            W = max(float(np.sum(np.abs(np.asarray(f)))) for f in fresh) + 1e-300
            worst = max([float(np.max(np.abs(np.asarray(a) - np.asarray(b)))) / W for a, b in zip(live, fresh)] +
                        [float(np.max(np.abs(np.asarray(one) - np.asarray(fresh[0])))) / W, worst])
            if rng.random() < 0.3:
                with joblib.parallel_backend("threading"):
                    par = P.transform(coll, skew=True, n_jobs=2)
                ctx.ran()
                worst = max([float(np.max(np.abs(np.asarray(a) - np.asarray(b)))) / W for a, b in zip(par, fresh)] + [worst])
        ctx.check("after reassigning kernel / weight parameters the images are those of a fresh imager", worst <= 1e-12, worst_relative=worst, steps=len(steps))
        ctx.mark_nontrivial(geom, [c.tolist() for c in coll], steps)
    except Exception as e:
        ctx.exception("transform returns", e, scenario="reconfigure")


def cancelling_case(ctx, k, rng):
    """integer filtration values with pairs above and below the diagonal (extended persistence) and an odd persistence power, or a
    signed weight function: the weights of one diagram can sum to exactly 0 although its image is not blank"""
    geom = imgcfg.gen_geometry(rng)
    while True:
        kkw, kdesc = imgcfg.gen_kernel(rng, geom["pixel_size"], high_corr=False)
        if kdesc["kind"] != "logistic":
            break
    nexp = float(rng.choice([1.0, 1.0, 3.0]))
    ctx.begin(k, "cancelling/" + kdesc["kind"], None)
    ctx.note("cancelling-weight-cases")
    try:
        P = Imager(**geom, **kkw, weight="persistence", weight_params={"n": nexp})
        b0, b1 = P.birth_range; p1 = P.pers_range[1]
        m = int(rng.integers(1, 4))
        pers = rng.integers(1, 5, m).astype(float)
        pers = np.concatenate([pers, -pers])[rng.permutation(2 * m)]            # cancels exactly for every odd power
        births = np.round(rng.uniform(b0, b1, 2 * m))
        bp = np.column_stack([births, pers])
        A = bd(bp)
        ctx.set_payload({"ctor": {**geom, "kernel": kdesc, "weight": "persistence n=%g" % nexp}, "diagram": A})
        ctx.ran(2 * m + 2)
        whole = np.asarray(P.transform(A, skew=True))
        parts = sum(np.asarray(P.transform(A[i:i + 1], skew=True)) for i in range(2 * m))
        W = float(np.sum(np.abs(pers) ** nexp)) + 1e-300
        ctx.check("image of a union == sum of images", np.max(np.abs(whole - parts)) <= 1e-12 * W, worst=float(np.max(np.abs(whole - parts))), W=W,
                  weights_sum=float(np.sum(np.sign(pers) * np.abs(pers) ** nexp)), blank=bool(not np.any(whole)))
        inside = np.asarray(P.transform([A], skew=True)[0])
        ctx.check("alone == inside a collection (in order)", np.max(np.abs(inside - whole)) <= 1e-12 * W, worst=float(np.max(np.abs(inside - whole))), n=1, W=W)
        ctx.mark_nontrivial(geom, kdesc, A.tolist())
    except Exception as e:
        ctx.exception("transform returns", e, scenario="cancelling")


def run_case(ctx, k, rng):
    if k % 131 == 17:
        return large_case(ctx, k, rng)
    if k % 23 == 7:
        return cancelling_case(ctx, k, rng)
    if k % 11 == 5:
        return reconfigure_case(ctx, k, rng)
    geom = imgcfg.gen_geometry(rng)
    kkw, kdesc = imgcfg.gen_kernel(rng, geom["pixel_size"])
    wkw, wfun, nonneg = imgcfg.gen_weight(rng)
    scen = int(rng.integers(0, 16))
    ctx.begin(k, "s%d/%s" % (scen, kdesc["kind"]), None)
    if scen == 15:
        return parallel_case(ctx, k, rng, geom, kkw, kdesc)
    try:
        ctx.ran()
        P = Imager(**geom, **kkw, **wkw)
    except Exception as e:
        ctx.exception("constructs", e)
        return
    pub = {"birth_range": tuple(P.birth_range), "pers_range": tuple(P.pers_range), "pixel_size": P.pixel_size}
    res = tuple(int(x) for x in P.resolution)

    def pts(n):
        return bd(imgcfg.gen_points(rng, n, pub))

    def T(x, **kw):
        ctx.ran()
        return P.transform(x, **kw)
    desc = {"ctor": {**geom, "kernel": kdesc, "weight": {a: (b if not callable(b) else b.__name__) for a, b in wkw.items()}}}
    try:
        if scen in (0, 1, 2):       # union additivity + order
            A, B = pts(int(rng.integers(1, 16))), pts(int(rng.integers(1, 16)) if rng.random() < 0.95 else int(rng.choice([120, 127, 128, 250])))
            ctx.set_payload({**desc, "A": A, "B": B})
            ia, ib = np.asarray(T(A)), np.asarray(T(B))
            U = np.vstack([A, B])
            iu = np.asarray(T(U[rng.permutation(len(U))]))
            W = float(np.sum(np.abs(wfun(U[:, 0], U[:, 1] - U[:, 0])))) + 1e-300
            ctx.check("image of a union == sum of images", np.max(np.abs(iu - (ia + ib))) <= 1e-12 * W, worst=float(np.max(np.abs(iu - (ia + ib)))), W=W)
            ip = np.asarray(T(vforms.relayout(rng, A[rng.permutation(len(A))])[0]))      # (a third of the layouts are plain copies)
            Wa = float(np.sum(np.abs(wfun(A[:, 0], A[:, 1] - A[:, 0])))) + 1e-300
            ctx.check("point order irrelevant", np.max(np.abs(ip - ia)) <= 1e-12 * Wa, worst=float(np.max(np.abs(ip - ia))))
            ctx.mark_nontrivial(desc, A, B)
        elif scen in (3, 4):        # sign and total
            A = pts(int(rng.integers(1, 31)) if rng.random() < 0.95 else int(rng.choice([127, 128, 129, 256, 257])))
            ctx.set_payload({**desc, "A": A})
            ia = np.asarray(T(A))
            w = np.asarray(wfun(A[:, 0], A[:, 1] - A[:, 0]), float)
            W = float(np.sum(np.abs(w))) + 1e-300
            if nonneg and np.all(w >= 0):
                ctx.check("non-negative weights => no negative pixel", float(ia.min()) >= -1e-9 * W, min_pixel=float(ia.min()), W=W)
                ctx.check("pixel total <= total weight", float(ia.sum()) <= W * (1 + 1e-9), total=float(ia.sum()), W=W)
            ctx.check("finite pixels", bool(np.all(np.isfinite(ia))), nan=int(np.sum(~np.isfinite(ia))))
        elif scen in (5, 6):        # zero-weight points
            A = pts(int(rng.integers(1, 10)))
            nz = int(rng.integers(1, 6))
            zb = rng.uniform(pub["birth_range"][0] - 1, pub["birth_range"][1] + 1, nz)
            if scen == 5 or "weight" not in wkw or wkw.get("weight") != "linear_ramp":
                Pz = Imager(**geom, **kkw, weight="persistence", weight_params={"n": float(rng.choice([0.5, 1, 2]))})
                Z = np.column_stack([zb, zb])                        # persistence 0 => weight 0
            else:
                Pz = Imager(**geom, **kkw, weight="linear_ramp", weight_params={"low": 0.0, "high": 1.0, "start": 1.0, "end": 2.0})
                Z = np.column_stack([zb, zb + rng.uniform(0, 0.99, nz)])    # below `start` => low = 0
            ctx.set_payload({**desc, "A": A, "zero_weight_points": Z})
            ctx.ran(2)
            i1 = np.asarray(Pz.transform(A)); i2 = np.asarray(Pz.transform(np.vstack([Z[: nz // 2], A, Z[nz // 2:]])))
            Wz = float(np.sum(A[:, 1] - A[:, 0])) + 1e-300 if Pz.weight_params.get("n", 1) == 1 else float(np.max(np.abs(i1)) * i1.size) + 1e-300
            ctx.check("zero-weight points contribute nothing", np.max(np.abs(i1 - i2)) <= 1e-12 * Wz and bool(np.all(np.isfinite(i2))),
                      worst=float(np.max(np.abs(i1 - i2))), W=Wz)
        elif scen in (7, 8):        # empty diagrams
            forms = [np.zeros((0, 2)), [], np.array([])]
            okk = True
            got = []
            for f in forms:
                im = np.asarray(T(f))
                got.append(im.shape)
                okk = okk and im.shape == res and not np.any(im)
            A, B = pts(int(rng.integers(1, 6))), pts(int(rng.integers(1, 6)))
            pos = int(rng.integers(0, 3))
            coll = [A, B]
            coll.insert([0, 1, 2][pos], np.zeros((0, 2)))
            ctx.set_payload({**desc, "collection": coll})
            out = T(coll)
            e = np.asarray(out[pos])
            okk = okk and len(out) == 3 and e.shape == res and not np.any(e)
            ctx.check("empty diagram => zero image of the configured resolution", okk, shapes=got, resolution=res, position=pos,
                      in_collection_shape=e.shape)
            ctx.mark_nontrivial(desc, coll)
        elif scen in (9, 10, 11):   # alone == in a collection, in order
            m = int(rng.integers(1, 13))
            coll = [pts(int(rng.integers(0, 8))) for _ in range(m)]
            if m >= 2 and rng.random() < 0.25:      # a resample with replacement: the same array object more than once
                coll[int(rng.integers(1, m))] = coll[0]
                if rng.random() < 0.5:
                    coll[int(rng.integers(0, m))] = coll[int(rng.integers(0, m))]
            for _ in range(int(rng.integers(0, 3))):
                coll[int(rng.integers(0, m))] = np.zeros((0, 2))
            ctx.set_payload({**desc, "collection": coll})
            out = T(coll)
            okk = isinstance(out, list) and len(out) == m
            worst = 0.0
            if okk:
                for i, A in enumerate(coll):
                    single = np.asarray(T(A))
                    one = np.asarray(T([A])[0]) if len(A) else single
                    worst = max(worst, float(np.max(np.abs(single - np.asarray(out[i])))), float(np.max(np.abs(single - one))))
            Wc = max([float(np.sum(np.abs(wfun(A[:, 0], A[:, 1] - A[:, 0])))) for A in coll if len(A)] + [0.0]) + 1e-300
            ctx.check("alone == inside a collection (in order)", okk and worst <= 1e-12 * Wc, worst=worst, n=m, W=Wc)
            if m >= 3 and sum(len(a) > 0 for a in coll) >= 2:
                ctx.mark_nontrivial(desc, coll)
        else:                        # birth-death with skew == birth-persistence without
            m = int(rng.integers(1, 20))
            bp = imgcfg.gen_points(rng, m, pub)
            A = bd(bp)
            ctx.set_payload({**desc, "birth_persistence": bp})
            i1 = np.asarray(T(A, skew=vforms.npflag(rng, True))); i2 = np.asarray(T(vforms.relayout(rng, bp)[0], skew=vforms.npflag(rng, False)))
            W = float(np.sum(np.abs(wfun(bp[:, 0], bp[:, 1])))) + 1e-300
            # the re-rounded persistence moves a point by ~eps*scale: allow the kernel's Lipschitz response to that
            ctx.check("birth-death+skew == birth-persistence", np.max(np.abs(i1 - i2)) <= 1e-9 * W, worst=float(np.max(np.abs(i1 - i2))), W=W)
    except Exception as e:
        ctx.exception("transform returns", e, scenario=scen)


def parallel_case(ctx, k, rng, geom, kkw, kdesc):
    fd, log = tempfile.mkstemp(prefix="c11_", suffix=".log")
    os.close(fd)
    try:
        n = float(rng.choice([1.0, 2.0]))
        P = Imager(**geom, **kkw, weight=imgcfg.delaying_weight, weight_params={"log": log, "n": n})
        pub = {"birth_range": tuple(P.birth_range), "pers_range": tuple(P.pers_range), "pixel_size": P.pixel_size}
        m = int(rng.integers(3, 13))
        coll = []
        for i in range(m):
            A = bd(imgcfg.gen_points(rng, int(rng.integers(1, 8)), pub))
            A[0, 1] += 0.0
            coll.append(A)
        if rng.random() < 0.5:
            coll[int(rng.integers(0, m))] = np.zeros((0, 2))
        ctx.set_payload({"ctor": {**geom, "kernel": kdesc}, "collection": coll})
        ctx.ran()
        serial = P.transform(coll)
        open(log, "w").close()
        nj = int(rng.choice([1, 2, 3, -1]))
        backend = str(rng.choice(["loky", "threading"]))
        ctx.ran()
        with joblib.parallel_backend(backend):
            par = P.transform(coll, n_jobs=nj)
        okk = isinstance(par, list) and len(par) == m and all(
            np.asarray(a).shape == np.asarray(b).shape and np.array_equal(np.asarray(a), np.asarray(b)) for a, b in zip(serial, par))
        # what the workers actually did
        ev = []
        with open(log) as f:
            for ln in f:
                pid, tid, t0, t1, tag = ln.split()
                ev.append((int(pid), int(tid), float(t0), float(t1), float(tag)))
        tags = [float(a[0, 0]) if len(a) else -1.0 for a in coll]
        by_end = [e[4] for e in sorted(ev, key=lambda e: e[3])]
        submit = [t for t in tags]
        reordered = by_end != submit
        workers = len({(e[0], e[1]) for e in ev})
        ctx.seen("parallel backends", "%s/n_jobs=%d" % (backend, nj))
        ctx.note("parallel runs")
        ctx.note("parallel runs with completion order != submission order", int(reordered))
        ctx.note("parallel runs using >1 worker", int(workers > 1))
        ctx.seen("completion orders", ",".join(str(submit.index(t)) if t in submit else "?" for t in by_end)[:80])
        ctx.check("parallel == serial, in input order", okk and len(ev) == m, backend=backend, n_jobs=nj, events=len(ev),
                  distinct_workers=workers, completion_reordered=reordered)
        ctx.mark_nontrivial("parallel", geom, kdesc, coll, backend, nj)
    except Exception as e:
        ctx.exception("parallel transform returns", e)
    finally:
        try:
            os.unlink(log)
        except OSError:
            pass
