"""C16 — persistent entropy is the Shannon entropy of normalised bar lengths."""
import math

import numpy as np

from .. import forms

ID = "C16"
CASES = {"quick": 6000, "thorough": 1400000}
MIN_NONTRIVIAL = {"quick": 1500, "thorough": 145749}
REQUIRED = ["value==shannon", "0<=E<=log n", "equal-lengths=>log n", "perm-invariant", "translate-invariant",
            "rescale-invariant", "normalised in [0,1]", "list=>vector in order", "keep_inf=False drops",
            "keep_inf=True,val_inf replaces", "keep_inf=True without value raises", "non-positive bar raises",
            "normalised with infinite bars dropped == H / log(#finite bars)", "list of barcodes: infinite bars replaced / dropped in every member"]
RULE = ("random barcodes (1-50 bars; classes: integer/dyadic lengths, equal lengths, one dominant bar, lengths over 12 "
        "orders of magnitude, floats), 0-3 infinite bars, lists of 1-6 barcodes, all flag combinations (a third of the flags given as numpy.bool_), zero/negative "
        "length bars at random positions; non-trivial = >=3 bars with >=2 distinct lengths; distinct = digest of "
        "(barcode(s), flags)")
REQUIRED_NOTES = ["large-cases"]
ASSUMPTIONS = ["oracle: -sum p log p with math.fsum in double precision; equality tolerance 1e-12*(1+log n)",
               "invariance under translation/rescaling is judged on exactly representable transformations "
               "(dyadic data, power-of-two factors) at 1e-12 and on arbitrary ones at 1e-9*(1+log n)",
               "normalised variant only judged for n>=2 (statement)"]


def setup(ctx):
    global PE
    from persim.persistent_entropy import persistent_entropy as PE  # noqa


def shannon(lengths):
    L = math.fsum(lengths)
    return -math.fsum((l / L) * math.log(l / L) for l in lengths)


def gen_bars(rng, n, kind):
    if kind == "int":
        b = rng.integers(0, 8, n).astype(float); l = rng.integers(1, 9, n).astype(float)
    elif kind == "dyadic":
        b = rng.integers(0, 64, n) / 8.0; l = rng.integers(1, 65, n) / 8.0
    elif kind == "equal":
        b = rng.integers(0, 8, n).astype(float); l = np.full(n, float(rng.integers(1, 5)) / 2)
    elif kind == "dominant":
        b = rng.random(n); l = rng.random(n) * 1e-3 + 1e-6; l[int(rng.integers(0, n))] = 1e3 * (1 + rng.random())
    elif kind == "wide":
        b = rng.random(n); l = 10.0 ** rng.uniform(-6, 6, n)
    else:
        b = rng.normal(0, 3, n); l = rng.random(n) * 2 + 1e-3
    s = float(rng.choice([1e-3, 1, 1, 1, 1e3])) if kind in ("float", "wide", "dominant") else 1.0
    return np.column_stack([b * s, (b + l) * s])


FLAGRNG = [None]


def call(ctx, *a, **kw):
    ctx.ran()
    # boolean options also arrive as numpy.bool_ (keep_inf=(hom_dim > 0) with a NumPy integer, a column of a settings table)
    for name in ("keep_inf", "normalize"):
        if name in kw and FLAGRNG[0] is not None:
            v = forms.npflag(FLAGRNG[0], kw[name])
            if v is not kw[name]:
                ctx.note("numpy.bool_ flags")
            kw[name] = v
    if FLAGRNG[0] is not None and len(a) == 1 and FLAGRNG[0].random() < 0.25:
        # the documented signature is (dgms, keep_inf=False, val_inf=None, normalize=False): the same call with positional options
        order = ["keep_inf", "val_inf", "normalize"]
        last = max([order.index(x) for x in kw if x in order] + [-1])
        if set(kw) <= set(order) and last >= 0:
            defaults = {"keep_inf": False, "val_inf": None, "normalize": False}
            pos = [kw.get(x, defaults[x]) for x in order[: last + 1]]
            ctx.note("calls with positional options")
            return PE(a[0], *pos)
    return PE(*a, **kw)


def large_case(ctx, k, rng):
    """barcodes of 10^4 - 10^5 bars (cubical persistence of an image, H0 of a large point cloud), with and without tied lengths"""
    n = int(rng.choice([10001, 12000, 20000, 50000, 100000]))
    style = str(rng.choice(["int-grid", "float", "all-equal", "8bit"]))
    if style == "int-grid":
        b = rng.integers(0, 50, n).astype(float); l = rng.integers(1, 40, n).astype(float)
    elif style == "8bit":
        b = rng.integers(0, 200, n).astype(float); l = rng.integers(1, 56, n).astype(float)
    elif style == "all-equal":
        b = rng.random(n); l = np.full(n, 0.5)
    else:
        b = rng.normal(0, 3, n); l = rng.random(n) * 2 + 1e-3
    dgm = np.column_stack([b, b + l])
    ctx.begin(k, "large/" + style, {"n_bars": n, "style": style, "first_bars": dgm[:5]})
    ctx.note("large-cases")
    lengths = (dgm[:, 1] - dgm[:, 0]).tolist()
    ref = shannon(lengths)
    tol = 1e-12 * (1 + math.log(n)) * 10
    try:
        norm = bool(rng.integers(0, 2))
        E = float(call(ctx, dgm if style != "8bit" else dgm.astype(np.uint8), normalize=norm)[0])
        want = ref / math.log(n) if norm else ref
        ctx.check("value==shannon", abs(E - want) <= tol, got=E, ref=want, n=n, normalize=norm)
        if norm:
            ctx.check("normalised in [0,1]", -tol <= E <= 1 + tol, got=E)
        if style == "all-equal":
            ctx.check("equal-lengths=>log n", abs(E - (1.0 if norm else math.log(n))) <= tol, got=E, logn=math.log(n))
        ctx.mark_nontrivial(n, style, float(dgm.sum()))
    except Exception as e:
        ctx.exception("value==shannon", e, n=n)


def run_case(ctx, k, rng):
    FLAGRNG[0] = np.random.default_rng([k, 16])
    if k % 499 == 13:
        return large_case(ctx, k, rng)
    kind = str(rng.choice(["int", "dyadic", "equal", "dominant", "wide", "float"]))
    n = int(rng.choice([1, 2, 3, 4, 5, 8, 13, 30, 50])) if rng.random() < 0.97 else int(rng.choice([127, 128, 129, 256, 257, 1000]))
    dgm = gen_bars(rng, n, kind)
    scen = int(rng.integers(0, 6))
    ctx.begin(k, "%s/s%d" % (kind, scen), {"dgm": dgm, "scenario": scen})
    lengths = [float(d - b) for b, d in dgm]
    tol = 1e-12 * (1 + math.log(n))
    exact = kind in ("int", "dyadic", "equal")
    if n >= 3 and len(set(lengths)) >= 2:
        ctx.mark_nontrivial(dgm, scen)

    # -- basic value clause (every scenario) ------------------------------------------------------------------
    try:
        E = call(ctx, dgm)
    except Exception as e:
        ctx.exception("value==shannon", e)
        return
    ok_shape = isinstance(E, np.ndarray) and E.shape == (1,)
    ctx.check("returns 1-vector for one diagram", ok_shape, got=repr(E))
    if not ok_shape:
        return
    E = float(E[0])
    ref = shannon(lengths)
    ctx.check("value==shannon", abs(E - ref) <= tol, got=E, ref=ref)
    ctx.check("0<=E<=log n", -tol <= E <= math.log(n) + tol, got=E, logn=math.log(n))
    if len(set(lengths)) == 1:
        ctx.check("equal-lengths=>log n", abs(E - math.log(n)) <= tol, got=E, logn=math.log(n))

    if kind in ("int", "equal") and np.all(dgm == np.round(dgm)):
        try:
            Ei = float(call(ctx, forms.as_int_dtype(rng, dgm)[0])[0])
            ctx.check("integer barcode == float barcode of the same values", abs(Ei - E) <= tol, int_form=Ei, float_form=E)
        except Exception as e:
            ctx.exception("integer barcode == float barcode of the same values", e)
    if rng.random() < 0.1:
        PD = np.array(dgm, float).copy()
        try:
            first = float(call(ctx, PD)[0])
            how = forms.update_in_place(rng, PD)
            E_now = float(call(ctx, PD)[0])
            lens = (PD[:, 1] - PD[:, 0]).tolist()
            ctx.check("after an in-place update the value is that of the current contents", abs(E_now - shannon(lens)) <= 1e-12 * (1 + math.log(len(lens))),
                      got=E_now, ref_on_current_values=shannon(lens), before_update=first, update=how)
        except Exception as e:
            ctx.exception("after an in-place update the value is that of the current contents", e)
    if rng.random() < 0.06:
        ia, fa_, da = forms.near_limit_int_diagram(rng, int(rng.integers(1, 9)))
        ctx.set_payload({"dgm": ia, "dtype": da})
        try:
            lens = (fa_[:, 1] - fa_[:, 0]).tolist()
            Ei, Ef, rf = float(call(ctx, ia)[0]), float(call(ctx, fa_)[0]), shannon(lens)
            ctx.check("narrow integer dtype near its limits == float64 of the same values", abs(Ei - rf) <= 1e-12 * (1 + math.log(len(lens))) and
                      abs(Ef - rf) <= 1e-12 * (1 + math.log(len(lens))), int_form=Ei, float_form=Ef, ref=rf, dtype=da)
        except Exception as e:
            ctx.exception("narrow integer dtype near its limits == float64 of the same values", e, dtype=da)
        ctx.set_payload({"dgm": dgm, "scenario": scen})
    if scen == 0:  # invariances
        perm = rng.permutation(n)
        Ep = float(call(ctx, dgm[perm])[0])
        ctx.check("perm-invariant", abs(Ep - E) <= (1e-12 if exact else 1e-10) * (1 + math.log(n)), got=Ep, base=E)
        fa, nm = forms.relayout(rng, dgm)
        El = float(call(ctx, fa)[0])
        ctx.check("another memory layout of the barcode gives the same value", El == E, got=El, base=E, layout=nm)
        if exact:
            t = float(rng.integers(-16, 17)) if rng.random() < 0.6 else float(rng.choice([1e6, -1e6, 2.0 ** 30, 1e9]))
            Et = float(call(ctx, dgm + t)[0])
            ctx.check("translate-invariant", abs(Et - E) <= tol, got=Et, base=E, shift=t)
            c = 2.0 ** int(rng.integers(-10, 11)) if rng.random() < 0.6 else 2.0 ** int(rng.choice([-40, -30, 30, 40]))
            Ec = float(call(ctx, dgm * c)[0])
            ctx.check("rescale-invariant", abs(Ec - E) <= tol, got=Ec, base=E, factor=c)
        else:
            # arbitrary factor: relative perturbation of each length is O(eps) => entropy moves by O(eps log n)
            c = float(10.0 ** rng.uniform(-3, 3))
            Ec = float(call(ctx, dgm * c)[0])
            ctx.check("rescale-invariant", abs(Ec - E) <= 1e-9 * (1 + math.log(n)), got=Ec, base=E, factor=c)
            # translation is only judged when it cannot destroy short bars: |t| * eps << min length
            t = float(rng.normal(0, 1)) * min(lengths)
            moved = dgm + t
            ml = [float(d - b) for b, d in moved]
            if min(ml) > 0:
                Et = float(call(ctx, moved)[0])
                ctx.check("translate-invariant", abs(Et - shannon(ml)) <= tol and
                          abs(Et - E) <= 1e-6 * (1 + math.log(n)), got=Et, base=E, shift=t)
    elif scen == 1:  # normalised
        if n >= 2:
            En = float(call(ctx, dgm, normalize=True)[0])
            ctx.check("normalised in [0,1]", -tol <= En <= 1 + tol and abs(En - ref / math.log(n)) <= tol,
                      got=En, ref=ref / math.log(n))
    elif scen == 2:  # list of barcodes => vector
        m = int(rng.integers(1, 7))
        dl = [gen_bars(rng, int(rng.integers(1, 12)), str(rng.choice(["int", "float", "wide"]))) for _ in range(m)]
        pos = int(rng.integers(0, m))
        dl[pos] = dgm
        ctx.set_payload({"dgms": dl})
        norm = bool(rng.integers(0, 2)) and all(len(d) >= 2 for d in dl)
        try:
            Ev = call(ctx, dl, normalize=norm)
        except Exception as e:
            ctx.exception("list=>vector in order", e)
            return
        refs = []
        for d in dl:
            r = shannon([float(y - x) for x, y in d])
            refs.append(r / math.log(len(d)) if norm else r)
        ok = isinstance(Ev, np.ndarray) and Ev.shape == (m,) and all(
            abs(float(Ev[i]) - refs[i]) <= 1e-12 * (1 + math.log(len(dl[i]))) for i in range(m))
        ctx.check("list=>vector in order", ok, got=Ev, ref=refs)
        singles = [float(call(ctx, d, normalize=norm)[0]) for d in dl]
        ctx.check("list entry == single call", all(float(Ev[i]) == singles[i] for i in range(m)), got=Ev, singles=singles)
    elif scen == 3:  # infinite bars
        ninf = int(rng.integers(1, 4))
        rows = [list(r) for r in dgm]
        infpos = []
        for _ in range(ninf):
            p = int(rng.integers(0, len(rows) + 1))
            rows.insert(p, [float(rng.choice(dgm[:, 0])), np.inf])
        big = np.array(rows)
        ctx.set_payload({"dgm": big})
        try:
            Ed = float(call(ctx, big)[0])
            Ed2 = float(call(ctx, big, keep_inf=False)[0])
            ctx.check("keep_inf=False drops", abs(Ed - ref) <= tol and Ed2 == Ed, got=Ed, ref=ref)
        except Exception as e:
            ctx.exception("keep_inf=False drops", e)
        v = float(np.max(dgm[:, 1]) + abs(rng.normal()) + 0.5)
        if rng.random() < 0.5:
            # any value above the births of the infinite bars is a legitimate replacement - also one *below* finite deaths
            infb = float(np.max(big[np.isinf(big[:, 1]), 0]))
            v = infb + float(rng.uniform(0.05, 1.0)) * max(float(np.ptp(dgm)), 1e-3)
        try:
            Ek = float(call(ctx, big, keep_inf=True, val_inf=v)[0])
            repl = np.where(np.isinf(big), v, big)
            rr = shannon([float(d - b) for b, d in repl])
            ctx.check("keep_inf=True,val_inf replaces", abs(Ek - rr) <= 1e-12 * (1 + math.log(len(big))), got=Ek, ref=rr, val_inf=v)
        except Exception as e:
            ctx.exception("keep_inf=True,val_inf replaces", e)
        # the same requests on a list of barcodes, the infinite bars sitting in any member
        try:
            other = gen_bars(rng, int(rng.integers(1, 8)), "int")
            other2 = np.vstack([other, [[0.0, np.inf]]])[rng.permutation(len(other) + 1)]
            lst = [other2, big] if rng.random() < 0.5 else [big, other, other2]
            El = call(ctx, lst, keep_inf=True, val_inf=v2) if (v2 := float(max(v, np.max(other[:, 1]) + 1))) else None
            refs = [shannon([float(d - b) for b, d in np.where(np.isinf(x), v2, x)]) for x in lst]
            Ed = call(ctx, lst, keep_inf=False)
            refd = [shannon([float(d - b) for b, d in x[np.isfinite(x[:, 1])]]) for x in lst]
            okl = all(abs(float(a) - r) <= 1e-12 * (1 + math.log(len(x))) for a, r, x in zip(El, refs, lst)) and len(El) == len(lst)
            okd = all(abs(float(a) - r) <= 1e-12 * (1 + math.log(len(x))) for a, r, x in zip(Ed, refd, lst)) and len(Ed) == len(lst)
            ctx.check("list of barcodes: infinite bars replaced / dropped in every member", okl and okd, replaced=El, want_replaced=refs,
                      dropped=Ed, want_dropped=refd)
        except Exception as e:
            ctx.exception("list of barcodes: infinite bars replaced / dropped in every member", e)
        # normalisation is by the number of bars that enter the sum (after dropping / replacing the infinite ones)
        try:
            nfin = int(np.sum(np.isfinite(big[:, 1])))
            if nfin >= 2:
                En = float(call(ctx, big, keep_inf=False, normalize=True)[0])
                ctx.check("normalised with infinite bars dropped == H / log(#finite bars)", abs(En - ref / math.log(nfin)) <= tol,
                          got=En, want=ref / math.log(nfin), finite_bars=nfin, all_bars=len(big))
            Ekn = float(call(ctx, big, keep_inf=True, val_inf=v, normalize=True)[0])
            repl2 = np.where(np.isinf(big), v, big)
            want = shannon([float(d - b) for b, d in repl2]) / math.log(len(big))
            ctx.check("normalised with infinite bars replaced == H / log(#bars)", abs(Ekn - want) <= 1e-12 * (1 + math.log(len(big))),
                      got=Ekn, want=want)
        except Exception as e:
            ctx.exception("normalised with infinite bars dropped == H / log(#finite bars)", e)
        try:
            r = call(ctx, big, keep_inf=True)
            ctx.check("keep_inf=True without value raises", False, got=repr(r))
        except Exception:
            ctx.check("keep_inf=True without value raises", True)
    elif scen == 4:  # non-positive bar must raise, wherever it sits, with every flag combination
        bad = dgm.copy()
        pos = int(rng.integers(0, n))
        how = str(rng.choice(["zero", "neg", "tinyneg"]))
        if how == "zero":
            bad[pos, 1] = bad[pos, 0]
        elif how == "neg":
            bad[pos, 1] = bad[pos, 0] - abs(float(rng.normal())) - 1e-3
        else:
            bad[pos, 1] = np.nextafter(bad[pos, 0], -np.inf)
        norm = bool(rng.integers(0, 2))
        as_list = bool(rng.integers(0, 2))
        if rng.random() < 0.3:
            # the same in an integer dtype (grey levels of an image as uint8 / uint16, counts as int32): a bar that dies before it is
            # born has a "length" that only looks positive after unsigned wrap-around
            bi = np.round(np.abs(dgm) * float(rng.choice([1, 3, 20]))) + 1
            bi[:, 1] = bi[:, 0] + np.maximum(np.round(bi[:, 1] - bi[:, 0]), 1)
            bi[pos, 1] = bi[pos, 0] - (0 if how == "zero" else float(rng.integers(1, 3)))
            cands = forms.int_dtypes_for(bi)       # only dtypes that hold every value (astype would wrap silently otherwise)
            if cands:
                bad = bi.astype(cands[int(rng.integers(0, len(cands)))])
                ctx.note("must-raise barcodes in integer dtypes")
        arg = [gen_bars(rng, 3, "int"), bad] if as_list else bad
        ctx.set_payload({"dgm": arg, "normalize": norm})
        try:
            r = call(ctx, arg, normalize=norm)
            ctx.check("non-positive bar raises", False, got=repr(r), how=how, pos=pos)
        except Exception:
            ctx.check("non-positive bar raises", True)
    else:  # flag combinations on a clean barcode agree with each other
        norm = bool(rng.integers(0, 2)) and n >= 2
        base = ref / math.log(n) if norm else ref
        v = float(np.max(dgm[:, 1]) + 1)
        for kw in ({"keep_inf": False}, {"keep_inf": True, "val_inf": v}, {"keep_inf": False, "val_inf": v}):
            try:
                r = float(call(ctx, dgm, normalize=norm, **kw)[0])
                ctx.check("flags irrelevant without infinite bars", abs(r - base) <= tol, got=r, ref=base, kw=kw)
            except Exception as e:
                ctx.exception("flags irrelevant without infinite bars", e, kw=kw)
