"""Concrete representations of one abstract unweighted graph (shared by the mGH monitors).  No persim import."""
import numpy as np
import scipy.sparse as sps

FORMS = ["list", "int", "bool", "float", "csr", "csc", "coo", "lil", "dok", "csr_array", "csr+zeros", "coo+zeros", "fortran", "view"]
FILLS = ["upper", "lower", "sym", "mixed"]


def orient(rng, A, fill):
    """A: symmetric 0/1 int array -> the same edges stored in the upper triangle, the lower triangle, both, or each edge once in
    a random orientation (what an arbitrarily oriented edge list gives)"""
    M = np.array(A).astype(int)
    if fill == "upper":
        return np.triu(M, 1)
    if fill == "lower":
        return np.tril(M, -1)
    if fill == "mixed":
        U = np.triu(M, 1)
        flip = np.triu(rng.random(M.shape) < 0.5, 1) & (U > 0)
        return np.where(flip, 0, U) + np.where(flip, U, 0).T
    return M


def represent(rng, A, form, fill):
    M = orient(rng, A, fill)
    if form == "list":
        return M.tolist()
    if form == "int":
        return M.astype(rng.choice([np.int8, np.int32, np.int64, np.uint8]))
    if form == "bool":
        return M.astype(bool)
    if form == "float":
        return M * rng.uniform(0.1, 5.0, M.shape)      # edge "weights": still an unweighted graph
    if form == "fortran":
        return np.asfortranarray(M)
    if form == "view":                                  # a non-contiguous window of a larger array
        n = len(M)
        big = np.zeros((2 * n + 1, 2 * n + 1), dtype=M.dtype)
        big[1::2, 1::2][:n, :n] = M
        return big[1::2, 1::2][:n, :n]
    if form in ("csr", "csc", "coo", "lil", "dok", "csr_array"):
        W = M
        if rng.random() < 0.35:
            # stored values other than 1 (edge lengths of a k-neighbours graph, similarities, multiples of 256): still the same
            # unweighted graph - an entry is an edge iff it is non-zero
            W = M * rng.choice([rng.uniform(0.05, 0.9, M.shape), rng.uniform(0.1, 5.0, M.shape), np.full(M.shape, 256.0), np.full(M.shape, 0.5)])
        if form == "csr_array":
            return sps.csr_array(W) if hasattr(sps, "csr_array") else sps.csr_matrix(W)
        return getattr(sps, form + "_matrix")(W)
    # explicitly stored zeros at some non-edges
    r, c = np.nonzero(M)
    n = len(M)
    zr, zc = [], []
    for _ in range(int(rng.integers(1, 4))):
        i, j = int(rng.integers(0, n)), int(rng.integers(0, n))
        if i != j and A[i][j] == 0:
            zr.append(i); zc.append(j)
    data = np.concatenate([np.ones(len(r)), np.zeros(len(zr))])
    S = sps.coo_matrix((data, (np.concatenate([r, zr]).astype(int), np.concatenate([c, zc]).astype(int))), shape=(n, n))
    return S.tocsr() if form == "csr+zeros" else S


def random_form(rng, A):
    form, fill = str(rng.choice(FORMS)), str(rng.choice(FILLS))
    return represent(rng, A, form, fill), form + "/" + fill
