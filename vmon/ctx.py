"""Per-worker monitoring context: clause counters, violations, non-trivial digests, sensors."""
import collections
import traceback
import warnings

import numpy as np

from .util import jsonable, digest

MAX_STORED_VIOLATIONS = 40
MAX_SAMPLES = 4


class Ctx:
    def __init__(self, prop, tier, seed, wid, hashseed):
        self.prop, self.tier, self.seed, self.wid, self.hashseed = prop, tier, seed, wid, hashseed
        self.clauses = collections.Counter()      # clause -> evaluations
        self.clause_fail = collections.Counter()  # clause -> failures
        self.violations = []                      # stored witnesses (capped)
        self.n_viol = 0
        self.viol_by_key = collections.Counter()
        self.cases = 0
        self.evaluations = 0                      # monitored executions of the real code
        self.nontrivial = set()                   # digests of distinct non-trivial cases
        self.classes = collections.Counter()
        self.notes = collections.Counter()
        self.sets = collections.defaultdict(set)  # named small sets (configurations seen, ...)
        self.samples = []
        self.results = {}                         # case k -> result digest (cross-configuration comparison)
        self.sensors = collections.Counter()
        self.k = None
        self.cls = None
        self.payload = None
        self._fp_events = collections.Counter()

    # -- case bookkeeping -------------------------------------------------------------------------------------
    def begin(self, k, cls, payload=None):
        self.k, self.cls, self.payload = k, cls, payload
        self.cases += 1
        self.classes[cls] += 1

    def set_payload(self, payload):
        self.payload = payload

    def mark_nontrivial(self, *objs, sample=None):
        d = digest(*objs) if objs else digest(self.payload)
        new = d not in self.nontrivial
        self.nontrivial.add(d)
        if new and len(self.samples) < MAX_SAMPLES:
            self.samples.append({"case": self.k, "class": self.cls,
                                 "input": jsonable(sample if sample is not None else self.payload)})
        return d

    def ran(self, n=1):
        """count monitored executions of the real code"""
        self.evaluations += n

    def note(self, key, n=1):
        self.notes[key] += n

    def seen(self, name, value):
        s = self.sets[name]
        if len(s) < 2000:
            s.add(value)

    def result(self, value):
        self.results[str(self.k)] = digest(value)

    # -- the monitor clauses ----------------------------------------------------------------------------------
    def check(self, clause, ok, key=None, **info):
        """Evaluate one monitor clause on the current case. Returns ok."""
        self.clauses[clause] += 1
        if ok:
            return True
        self.clause_fail[clause] += 1
        self.n_viol += 1
        self.viol_by_key[str(key)] += 1
        if len(self.violations) < MAX_STORED_VIOLATIONS or not any(
                v.get("key") == key for v in self.violations):
            self.violations.append({
                "clause": clause, "case": self.k, "class": self.cls, "key": key,
                "wid": self.wid, "hashseed": self.hashseed,
                "input": jsonable(self.payload), "info": jsonable(info)})
        return False

    def exception(self, clause, exc, key=None, **info):
        tb = "".join(traceback.format_exception(type(exc), exc, exc.__traceback__)[-6:])
        return self.check(clause, False, key=key, exception=repr(exc), traceback=tb, **info)

    # -- sensors -----------------------------------------------------------------------------------------------
    def fp_sensor(self):
        return _FPSensor(self)

    def dump(self):
        return {
            "prop": self.prop, "tier": self.tier, "seed": self.seed, "wid": self.wid, "hashseed": self.hashseed,
            "clauses": dict(self.clauses), "clause_fail": dict(self.clause_fail),
            "violations": self.violations, "n_viol": self.n_viol, "viol_by_key": dict(self.viol_by_key), "cases": self.cases,
            "evaluations": self.evaluations, "nontrivial": sorted(self.nontrivial),
            "classes": dict(self.classes), "notes": dict(self.notes),
            "sets": {k: sorted(map(str, v)) for k, v in self.sets.items()},
            "samples": self.samples, "results": self.results, "sensors": dict(self.sensors),
        }


class _FPSensor:
    """Record floating-point exceptions (np.seterr call-back) and warnings raised inside a monitored call."""

    def __init__(self, ctx):
        self.ctx = ctx
        self.events = []
        self.warnings = []

    def _cb(self, kind, flag):
        self.events.append(kind)

    def __enter__(self):
        self._old_call = np.seterrcall(self._cb)
        self._old = np.seterr(all="call")
        self._cw = warnings.catch_warnings(record=True)
        self._wl = self._cw.__enter__()
        warnings.simplefilter("always")
        return self

    def __exit__(self, *a):
        self._cw.__exit__(*a)
        np.seterr(**self._old)
        np.seterrcall(self._old_call)
        self.warnings = [(w.category.__name__, str(w.message)) for w in self._wl]
        for e in self.events:
            self.ctx.sensors["fp:" + e] += 1
        for c, m in self.warnings:
            self.ctx.sensors["warn:" + c] += 1
        return False
