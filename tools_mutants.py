#!/venv/bin/python
"""Self-validation of the monitors (not a registered check): apply deliberate property-breaking edits to a scratch
copy of /repo (under /tmp, removed afterwards), run the quick tier against it and confirm it fires.

  ./tools_mutants.py [--props C01,C02] [--ids m1,m2] [--suite] [--tier quick] [-j 4]

--suite additionally runs the repository's own tests on the mutant to confirm they still pass (realism)."""
import argparse
import concurrent.futures as cf
import json
import os
import shutil
import subprocess
import sys
import tempfile

HERE = os.path.dirname(os.path.abspath(__file__))
sys.path.insert(0, HERE)
from mutants.mutants import MUTANTS  # noqa


def run_one(m, tier, suite):
    tmp = tempfile.mkdtemp(prefix="vmut_")
    try:
        repo = os.path.join(tmp, "repo")
        os.makedirs(repo)
        shutil.copytree("/repo/persim", os.path.join(repo, "persim"))
        for ed in m["edits"]:
            p = os.path.join(repo, ed["file"])
            s = open(p).read()
            if s.count(ed["old"]) != 1:
                return m["id"], "STALE(%d matches in %s)" % (s.count(ed["old"]), ed["file"]), {}
            open(p, "w").write(s.replace(ed["old"], ed["new"]))
        res = {}
        if suite:
            shutil.copytree("/repo/test", os.path.join(repo, "test"))
            r = subprocess.run(["/venv/bin/python", "-m", "pytest", "-q", "-x", "-p", "no:cacheprovider", "test"],
                               cwd=repo, capture_output=True, text=True,
                               env={**os.environ, "PYTHONPATH": repo, "MPLBACKEND": "Agg"})
            res["suite"] = "pass" if r.returncode == 0 else "FAIL: " + r.stdout[-300:]
        verdicts = {}
        for prop in m["props"]:
            ev = os.path.join(tmp, "ev")
            r = subprocess.run([os.path.join(HERE, "check"), prop, "--tier", tier, "--repo", repo],
                               capture_output=True, text=True, env={**os.environ, "VERIF_EVIDENCE_DIR": ev, "VERIF_CASE_TIMEOUT": os.environ.get("VERIF_CASE_TIMEOUT", "20")})
            first = [l for l in r.stdout.splitlines() if l.startswith("  clause=")][:1]
            inc = [l for l in r.stdout.splitlines() if l.startswith("INCONCLUSIVE")][:1]
            verdicts[prop] = (r.returncode, first[0][:200] if first else (inc[0][:300] if inc else r.stdout[-300:]))
        status = "caught" if all(v[0] == 1 for v in verdicts.values()) else (
            "hang->inconclusive" if all(v[0] in (1, 2) and ("did not finish" in v[1] or v[0] == 1) for v in verdicts.values()) else "MISSED")
        res["verdicts"] = verdicts
        return m["id"], status, res
    finally:
        shutil.rmtree(tmp, ignore_errors=True)


def main():
    ap = argparse.ArgumentParser()
    ap.add_argument("--props", default="")
    ap.add_argument("--ids", default="")
    ap.add_argument("--suite", action="store_true")
    ap.add_argument("--tier", default="quick")
    ap.add_argument("-j", type=int, default=2)
    a = ap.parse_args()
    props = set(filter(None, a.props.split(",")))
    ids = set(filter(None, a.ids.split(",")))
    sel = [m for m in MUTANTS if (not props or props & set(m["props"])) and (not ids or m["id"] in ids)]
    if props:
        sel = [dict(m, props=[p for p in m["props"] if p in props]) for m in sel]
    out = {}
    with cf.ThreadPoolExecutor(a.j) as ex:
        for mid, status, res in ex.map(lambda m: run_one(m, a.tier, a.suite), sel):
            out[mid] = status
            print("%-34s %-8s %s" % (mid, status, json.dumps(res)[:400]))
            sys.stdout.flush()
    missed = [k for k, v in out.items() if v not in ("caught", "hang->inconclusive")]
    print("caught %d / %d; not caught: %s" % (len(out) - len(missed), len(out), missed))
    return 1 if missed else 0


if __name__ == "__main__":
    sys.exit(main())
