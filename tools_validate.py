#!/usr/bin/env python3
"""Validate MANIFEST.json and evidence/*.json against the schemas (run with python3-vt)."""
import json, sys, glob, jsonschema
ok = True
m = json.load(open('/verif/MANIFEST.json')) if len(sys.argv) < 2 else None
try:
    jsonschema.validate(json.load(open('/verif/MANIFEST.json')), json.load(open('/root/.vp/MANIFEST.schema.json')))
    print("MANIFEST ok")
except Exception as e:
    ok = False; print("MANIFEST INVALID", str(e)[:500])
es = json.load(open('/root/.vp/EVIDENCE.schema.json'))
for f in sorted(glob.glob('/verif/evidence/*.json')):
    try:
        jsonschema.validate(json.load(open(f)), es); print(f, "ok")
    except Exception as e:
        ok = False; print(f, "INVALID", str(e)[:500])
sys.exit(0 if ok else 1)
