#!/venv/bin/python
"""Regenerate MANIFEST.json from the property modules that exist (keeps it valid at all times)."""
import importlib, json, os, sys, subprocess
HERE = os.path.dirname(os.path.abspath(__file__))
sys.path.insert(0, HERE)
props = [json.loads(l) for l in open(os.path.join(HERE, "properties.jsonl"))]
checks, na = [], []
for p in props:
    pid = p["id"]
    if not os.path.exists(os.path.join(HERE, "vmon", "props", pid + ".py")):
        na.append({"property_id": pid, "reason": "monitor not built yet (planned in DESIGN.md section 3); no claim is made"})
        continue
    m = importlib.import_module("vmon.props." + pid)
    if getattr(m, "NOT_CLAIMED", None):
        na.append({"property_id": pid, "reason": m.NOT_CLAIMED}); continue
    checks.append({
        "property_id": pid,
        "quick_cmd": "./check %s --tier quick" % pid,
        "thorough_cmd": "./check %s --tier thorough" % pid,
        "evidence_file": "/verif/evidence/%s.json" % pid,
        "replay_cmd_template": "./check %s --replay {path}" % pid,
        "engine": "vmon",
        "level_claimed": {"category": "exploration",
                          "text": getattr(m, "LEVEL_TEXT", "Runtime monitoring: the real persim code is run on generated workloads while monitor clauses compare each observed execution with an independent oracle; held on the executions observed, never 'verified'.") ,
                          "design_ref": "DESIGN.md section 3, " + pid},
        "level_note": getattr(m, "LEVEL_NOTE", "; ".join(getattr(m, "ASSUMPTIONS", []))) or "see DESIGN.md",
        "technique": getattr(m, "TECHNIQUE", "runtime monitoring: postcondition/metamorphic monitor clauses with an independent executable oracle over generated workloads"),
    })
hook_commits = []
try:
    out = subprocess.run(["git", "-C", "/repo", "log", "--format=%H %s"], capture_output=True, text=True).stdout
    hook_commits = [l.split()[0] for l in out.splitlines() if " hook:" in l or l.split(" ", 1)[1].startswith("hook")]
except Exception:
    pass
man = {
    "version": 1,
    "setup_cmd": "/venv/bin/python -m pip install --quiet --no-index --find-links /opt/veriftools/wheels --target /verif/.deps icontract",
    "hooks": {"guard": "PERSIM_VERIF", "enable": "environment variable PERSIM_VERIF=1 set by vmon.core for every worker process (pure Python: nothing to build; workers import /repo's working tree directly)",
              "baseline_off_cmd": "cd /repo && env -u PERSIM_VERIF /venv/bin/python -m pytest -q -p no:cacheprovider --timeout=900",
              "source_commits": hook_commits, "add_only": True},
    "engines": [{"name": "vmon", "path": "/verif/vmon", "serves_properties": [c["property_id"] for c in checks],
                 "kind_free_text": "runtime-monitoring harness: worker subprocesses (one PYTHONHASHSEED each) run the real code on seeded workloads; monitors = postcondition clauses with independent oracles, class invariants (icontract), call-history recorders checked offline, fp-exception/warning sensors, one guarded trace hook"}],
    "checks": checks,
    "not_applicable": na,
    "notes": "exit 0 held on everything observed; exit 1 with VIOLATION line; exit 2 INCONCLUSIVE (a deciding clause was never evaluated, too few non-trivial cases, watchdog) - never folded into held. Known findings: /verif/known_findings.json.",
}
json.dump(man, open(os.path.join(HERE, "MANIFEST.json"), "w"), indent=1)
print("claimed:", [c["property_id"] for c in checks]); print("not claimed:", [n["property_id"] for n in na])
