#!/venv/bin/python
"""Run the checks against the independently seeded breaking changes kept under seeded/<id>/ (patch.diff, demo.py,
meta.json).  For each: scratch copy of /repo's persim + test under /tmp, apply the patch, (optionally) run the
repository suite and the demonstration with / without the patch, run the quick (or given) tier of the property's check
with --repo pointing at the copy, remove the copy.

  ./tools_seeded.py [--ids a,b] [--tier quick] [--confirm] [--props C01,C02] [-j 3]
--confirm : also run the suite (must pass) and the demo (must fail with, pass without the patch)
--props   : run these checks instead of the one named in meta.json (to see which other monitors notice)"""
import argparse
import concurrent.futures as cf
import json
import os
import shutil
import subprocess
import sys
import tempfile

HERE = os.path.dirname(os.path.abspath(__file__))
PY = "/venv/bin/python"


def run_one(sid, tier, confirm, props):
    d = os.path.join(HERE, "seeded", sid)
    meta = json.load(open(os.path.join(d, "meta.json")))
    if meta.get("obsolete"):
        return sid, "obsolete", {"why": meta["obsolete"][:120]}
    tmp = tempfile.mkdtemp(prefix="vseed_")
    res = {}
    try:
        repo = os.path.join(tmp, "repo")
        os.makedirs(repo)
        shutil.copytree("/repo/persim", os.path.join(repo, "persim"))
        shutil.copytree("/repo/test", os.path.join(repo, "test"))
        env = {**os.environ, "PYTHONPATH": repo, "MPLBACKEND": "Agg"}
        if confirm:
            shutil.copytree(d, os.path.join(repo, "SEED"))
            r0 = subprocess.run([PY, "SEED/demo.py"], cwd=repo, env=env, capture_output=True, text=True, timeout=1800)
            res["demo_without_patch"] = r0.returncode
        r = subprocess.run(["git", "apply", os.path.join(d, "patch.diff")], cwd=repo, capture_output=True, text=True)
        if r.returncode != 0:
            return sid, "PATCH-STALE", {"err": r.stderr[-300:]}
        if confirm:
            r1 = subprocess.run([PY, "SEED/demo.py"], cwd=repo, env=env, capture_output=True, text=True, timeout=1800)
            res["demo_with_patch"] = r1.returncode
            rs = subprocess.run([PY, "-m", "pytest", "-q", "-p", "no:cacheprovider", "test"], cwd=repo, env=env,
                                capture_output=True, text=True)
            res["suite"] = rs.stdout.strip().splitlines()[-1][:80] if rs.stdout.strip() else rs.stderr[-200:]
        verdicts = {}
        for prop in (props or meta["property"].split(",")):
            ev = os.path.join(tmp, "ev")
            rc = subprocess.run([os.path.join(HERE, "check"), prop, "--tier", tier, "--repo", repo], capture_output=True,
                                text=True, env={**os.environ, "VERIF_EVIDENCE_DIR": ev})
            first = [l for l in rc.stdout.splitlines() if l.startswith("  clause=")][:1]
            inc = [l for l in rc.stdout.splitlines() if l.startswith("INCONCLUSIVE")][:1]
            verdicts[prop] = [rc.returncode, (first[0][:220] if first else (inc[0][:220] if inc else ""))]
        res["verdicts"] = verdicts
        status = "caught" if any(v[0] == 1 for v in verdicts.values()) else "MISSED"
        return sid, status, res
    finally:
        shutil.rmtree(tmp, ignore_errors=True)


def main():
    ap = argparse.ArgumentParser()
    ap.add_argument("--ids", default="")
    ap.add_argument("--tier", default="quick")
    ap.add_argument("--confirm", action="store_true")
    ap.add_argument("--props", default="")
    ap.add_argument("-j", type=int, default=2)
    a = ap.parse_args()
    root = os.path.join(HERE, "seeded")
    ids = sorted(x for x in os.listdir(root) if os.path.isdir(os.path.join(root, x)))
    if a.ids:
        ids = [i for i in ids if i in a.ids.split(",")]
    props = [p for p in a.props.split(",") if p]
    out = {}
    with cf.ThreadPoolExecutor(a.j) as ex:
        for sid, status, res in ex.map(lambda s: run_one(s, a.tier, a.confirm, props), ids):
            out[sid] = status
            print("%-28s %-8s %s" % (sid, status, json.dumps(res)[:700]))
            sys.stdout.flush()
    obsolete = [k for k, v in out.items() if v == "obsolete"]
    missed = [k for k, v in out.items() if v not in ("caught", "obsolete")]
    print("caught %d / %d; not caught: %s; obsolete (neutralised by a later repair): %s" % (len(out) - len(missed) - len(obsolete), len(out) - len(obsolete), missed, obsolete))
    return 1 if missed else 0


if __name__ == "__main__":
    sys.exit(main())
